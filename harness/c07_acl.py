"""C07 – ACL verdict = first matching rule by position, else implicit action.

Lemma structure (DESIGN §1.1): L1 (Engine T, c07 smt job) ip_matches_masked_range == bit formula over BV32;
L2 (Engine S) ACLRule.permit_frame_check on a real rule with symbolic fields, masked-range kernel replaced by a
recording oracle; L3 (Engine S) AccessControlList scan/add/remove on a real list with oracle matchers.
"""
from __future__ import annotations

from vlib.chdriver import all_of, assume, check, concretize, cover, fail, pick, rng
from vlib.fixtures import concrete, quiet

SOURCES = ["/repo/src/primaite/simulator/network/hardware/nodes/network/router.py"]
ENCODED = [
    "primaite.simulator.network.hardware.nodes.network.router.ip_matches_masked_range (Engine T, BV32)",
    "primaite.simulator.network.hardware.nodes.network.router.ACLRule.permit_frame_check / describe_state",
    "primaite.simulator.network.hardware.nodes.network.router.AccessControlList.is_permitted/add_rule/remove_rule",
    "AccessControlList._init_request_manager add_rule/remove_rule request handlers",
]
ASSUMPTIONS = [
    "L2: ip_matches_masked_range is replaced by a recording oracle returning a fresh solver boolean per call (its "
    "arguments are asserted to be the frame address, the rule address and the rule wildcard); the kernel itself is "
    "decided for all 2^96 inputs by L1",
    "L3: rule matchers are oracles returning solver booleans (matched_i, action_i); composition L1+L2+L3 gives the "
    "property for lists with up to N populated slots (scan loop uniform in the slot index)",
    "'specified' means 'is not None' (port 0 and protocol 'none' are specified values)",
    "add_rule(position=p) is entered through pydantic validate_call: CrossHair realises p at that boundary, p ranges "
    "over -2..max_acl_rules+1 exhaustively",
]

PROTOS = [None, "tcp", "udp", "icmp", "none"]
FPROTOS = ["tcp", "udp", "icmp"]


def _mk_frame(kind: str):
    from primaite.simulator.network.transmission.data_link_layer import EthernetHeader, Frame
    from primaite.simulator.network.transmission.network_layer import IPPacket
    from primaite.simulator.network.transmission.transport_layer import TCPHeader, UDPHeader
    from primaite.simulator.network.protocols.icmp import ICMPPacket

    eth = EthernetHeader(src_mac_addr="aa:bb:cc:dd:ee:01", dst_mac_addr="aa:bb:cc:dd:ee:02")
    ip = IPPacket(src_ip_address="10.0.0.1", dst_ip_address="10.0.0.2", protocol=kind)
    kw = {}
    if kind == "tcp":
        kw["tcp"] = TCPHeader(src_port=80, dst_port=80)
    elif kind == "udp":
        kw["udp"] = UDPHeader(src_port=53, dst_port=53)
    else:
        kw["icmp"] = ICMPPacket()
    return Frame(ethernet=eth, ip=ip, **kw)


class _Oracle:
    """Recording stand-in for ip_matches_masked_range."""

    def __init__(self, answers):
        self.answers = list(answers)
        self.calls = []

    def __call__(self, ip_to_check, base_ip, wildcard_mask):
        self.calls.append((ip_to_check, base_ip, wildcard_mask))
        return self.answers[len(self.calls) - 1]


def rule_match(
    action_permit: bool,
    rp: int,  # rule protocol index into PROTOS
    src_set: bool,
    src_ip: int,
    src_wild: bool,
    dst_set: bool,
    dst_ip: int,
    dst_wild: bool,
    sport_set: bool,
    sport: int,
    dport_set: bool,
    dport: int,
    fp: int,  # frame protocol index
    f_src: int,
    f_dst: int,
    f_sport: int,
    f_dport: int,
    o1: bool,
    o2: bool,
):
    """L2: real ACLRule.permit_frame_check vs the reference 'all specified fields match'."""
    assume(
        all_of(
            rng(rp, 0, 4),
            rng(fp, 0, 2),
            rng(src_ip, 0, 2**32 - 1),
            rng(dst_ip, 0, 2**32 - 1),
            rng(f_src, 0, 2**32 - 1),
            rng(f_dst, 0, 2**32 - 1),
            rng(sport, 0, 65535),
            rng(dport, 0, 65535),
            rng(f_sport, 0, 65535),
            rng(f_dport, 0, 65535),
        )
    )
    from ipaddress import IPv4Address

    import primaite.simulator.network.hardware.nodes.network.router as R

    kind = pick(FPROTOS, fp)
    rproto = pick(PROTOS, rp)
    with concrete():
        quiet()
        frame = _mk_frame(kind)
        rule = R.ACLRule()
        wild_obj = IPv4Address("0.0.255.255")
    frame.ip.src_ip_address = IPv4Address(f_src)
    frame.ip.dst_ip_address = IPv4Address(f_dst)
    if kind == "tcp":
        frame.tcp.src_port, frame.tcp.dst_port = f_sport, f_dport
    elif kind == "udp":
        frame.udp.src_port, frame.udp.dst_port = f_sport, f_dport
    rule.action = R.ACLAction.PERMIT if action_permit else R.ACLAction.DENY
    rule.protocol = rproto
    rule.src_ip_address = IPv4Address(src_ip) if src_set else None
    rule.src_wildcard_mask = wild_obj if src_wild else None
    rule.dst_ip_address = IPv4Address(dst_ip) if dst_set else None
    rule.dst_wildcard_mask = wild_obj if dst_wild else None
    rule.src_port = sport if sport_set else None
    rule.dst_port = dport if dport_set else None
    oracle = _Oracle([o1, o2])
    saved = R.ip_matches_masked_range
    R.ip_matches_masked_range = oracle
    try:
        permitted, matched = rule.permit_frame_check(frame)
    finally:
        R.ip_matches_masked_range = saved
    # ---- reference
    n = 0
    exp = True
    if rproto is not None and rproto != kind:
        exp = False
    src_ok = True
    if src_set:
        if src_wild:
            check(len(oracle.calls) > n, "masked-range kernel not consulted for a src range rule")
            c = oracle.calls[n]
            check(
                c[0] is frame.ip.src_ip_address and c[1] is rule.src_ip_address and c[2] is wild_obj,
                "masked-range kernel consulted with the wrong src arguments",
            )
            src_ok = oracle.answers[n]
            n += 1
        else:
            src_ok = f_src == src_ip
    dst_ok = True
    if dst_set:
        if dst_wild:
            check(len(oracle.calls) > n, "masked-range kernel not consulted for a dst range rule")
            c = oracle.calls[n]
            check(
                c[0] is frame.ip.dst_ip_address and c[1] is rule.dst_ip_address and c[2] is wild_obj,
                "masked-range kernel consulted with the wrong dst arguments",
            )
            dst_ok = oracle.answers[n]
            n += 1
        else:
            dst_ok = f_dst == dst_ip
    check(len(oracle.calls) == n, "masked-range kernel consulted more often than the rule has range fields")
    fs = f_sport if kind in ("tcp", "udp") else None
    fd = f_dport if kind in ("tcp", "udp") else None
    sp_ok = (not sport_set) or (fs is not None and fs == sport)
    dp_ok = (not dport_set) or (fd is not None and fd == dport)
    exp = all_of(exp, src_ok, dst_ok, sp_ok, dp_ok)
    if exp:
        cover("match")
    else:
        cover("nomatch")
    check(bool(matched) == bool(exp), lambda: f"rule match={matched}, reference={exp}")
    check(bool(permitted) == bool(exp and action_permit), lambda: f"permitted={permitted} but match={exp}, permit={action_permit}")


def rule_state(sport_set: bool, sport: int, dport_set: bool, dport: int, rp: int):
    """describe_state reports every specified field, falsy values (port 0) included."""
    import primaite.simulator.network.hardware.nodes.network.router as R

    assume(all_of(rng(sport, 0, 65535), rng(dport, 0, 65535), rng(rp, 0, 4)))
    with concrete():
        quiet()
        rule = R.ACLRule(src_ip_address="10.0.0.1", dst_wildcard_mask="0.0.0.255")
    rule.protocol = pick(PROTOS, rp)
    rule.src_port = sport if sport_set else None
    rule.dst_port = dport if dport_set else None
    st = rule.describe_state()
    cover("state")
    check(st["protocol"] == rule.protocol, "describe_state misreports the protocol")
    check(st["src_ip_address"] == "10.0.0.1" and st["dst_ip_address"] is None, "describe_state misreports addresses")
    check(st["src_wildcard_mask"] is None and st["dst_wildcard_mask"] == "0.0.0.255", "describe_state misreports masks")
    if sport_set:
        check(st["src_port"] is not None and st["src_port"] == sport, "describe_state hides a specified src_port")
    else:
        check(st["src_port"] is None, "describe_state invents a src_port")
    if dport_set:
        check(st["dst_port"] is not None and st["dst_port"] == dport, "describe_state hides a specified dst_port")
    else:
        check(st["dst_port"] is None, "describe_state invents a dst_port")


def _mk_acl(max_rules: int, implicit_permit: bool):
    import primaite.simulator.network.hardware.nodes.network.router as R
    from primaite.simulator.system.core.sys_log import SysLog

    quiet()
    return R.AccessControlList(
        sys_log=SysLog("acl_host"),
        implicit_action=R.ACLAction.PERMIT if implicit_permit else R.ACLAction.DENY,
        max_acl_rules=max_rules,
        name="acl",
    )


def acl_scan(
    implicit_permit: bool,
    p0: bool, m0: bool, a0: bool,
    p1: bool, m1: bool, a1: bool,
    p2: bool, m2: bool, a2: bool,
    p3: bool, m3: bool, a3: bool,
    p4: bool, m4: bool, a4: bool,
    late: bool,
    n_slots: int = 3,
    max_rules: int = 25,
    spread: bool = False,
):
    """L3a: is_permitted returns the action of the lowest present matching slot, else implicit; counts one hit.
    `late`: the list's implicit action is assigned after construction (the list was built with the opposite one)."""
    import primaite.simulator.network.hardware.nodes.network.router as R

    pres = [p0, p1, p2, p3, p4][:n_slots]
    mat = [m0, m1, m2, m3, m4][:n_slots]
    act = [a0, a1, a2, a3, a4][:n_slots]
    implicit_permit = True if implicit_permit else False
    late = True if late else False
    with concrete():
        acl = _mk_acl(max_rules, (not implicit_permit) if late else implicit_permit)
        if late:
            acl.implicit_action = R.ACLAction.PERMIT if implicit_permit else R.ACLAction.DENY
            cover("late_implicit")
        frame = _mk_frame("tcp")
        nslots_real = len(acl._acl)
        # positions used: the first n_slots, or spread over the list incl. position 0 and the last slot
        if spread:
            positions = sorted({0, nslots_real - 1, nslots_real // 2, 1, nslots_real - 2})[:n_slots]
        else:
            positions = list(range(n_slots))
    rules = []
    for i, pos in enumerate(positions):
        if pres[i]:
            with concrete():
                r = R.ACLRule()
            r.action = R.ACLAction.PERMIT if act[i] else R.ACLAction.DENY
            mi, ai = mat[i], act[i]
            object.__setattr__(r, "permit_frame_check", (lambda frame, mi=mi, ai=ai: (all_of(mi, ai), mi)))
            acl._acl[pos] = r
            rules.append((pos, r, mi, ai))
    with concrete():
        before = [(r, r.match_count) for (_, r, _, _) in rules]
        imp_before = acl.implicit_rule.match_count
    permitted, rule = acl.is_permitted(frame)
    decided = None
    for pos, r, mi, ai in rules:
        if mi:
            decided = (r, ai)
            break
    if decided is None:
        cover("implicit")
        check(rule is acl.implicit_rule, "no rule matched but the deciding rule is not the implicit rule")
        check(bool(permitted) == implicit_permit, lambda: "implicit action not applied" + (" (it was assigned after the list was constructed)" if late else ""))
        check(acl.implicit_rule.match_count == imp_before + 1, "implicit rule hit counter not incremented by one")
    else:
        cover("explicit")
        check(rule is decided[0], "deciding rule is not the lowest-positioned matching rule")
        check(bool(permitted) == bool(decided[1]), "verdict differs from the deciding rule's action")
        check(acl.implicit_rule.match_count == imp_before, "implicit rule counted although an explicit rule decided")
    for r, cnt in before:
        want = cnt + 1 if (decided is not None and r is decided[0]) else cnt
        check(r.match_count == want, "hit counter of a non-deciding rule changed / deciding rule not counted once")


FIELD_SETS = [
    # (protocol, src_ip, src_wild, src_port, dst_ip, dst_wild, dst_port) as request-API strings / python values
    dict(protocol=None, src_ip_address=None, src_wildcard_mask=None, src_port=None, dst_ip_address=None, dst_wildcard_mask=None, dst_port=None),
    dict(protocol="tcp", src_ip_address="10.0.0.1", src_wildcard_mask=None, src_port=80, dst_ip_address="10.0.0.2", dst_wildcard_mask=None, dst_port=443),
    dict(protocol="udp", src_ip_address="10.0.0.0", src_wildcard_mask="0.0.0.255", src_port=0, dst_ip_address="10.0.1.0", dst_wildcard_mask="0.0.0.255", dst_port=0),
    dict(protocol="icmp", src_ip_address=None, src_wildcard_mask=None, src_port=None, dst_ip_address="10.0.0.2", dst_wildcard_mask=None, dst_port=None),
    # source and destination ranges of DIFFERENT widths (exact host -> subnet, subnet -> wider subnet)
    dict(protocol="tcp", src_ip_address="10.0.0.1", src_wildcard_mask=None, src_port=None, dst_ip_address="10.0.2.0", dst_wildcard_mask="0.0.0.255", dst_port=21),
    dict(protocol=None, src_ip_address="10.0.0.0", src_wildcard_mask="0.0.0.15", src_port=None, dst_ip_address="10.0.0.0", dst_wildcard_mask="0.0.255.255", dst_port=None),
]


def acl_edit(permit: bool, fs: int, pos: int, pre0: bool, pre1: bool, pre2: bool, via_request: bool, remove: bool, like: int, max_rules: int = 25):
    """L3b: add_rule/remove_rule change exactly the addressed slot or are refused (ValueError via the Python API,
    a 'failure' response via the request API) for every position -2..max+1."""
    import primaite.simulator.network.hardware.nodes.network.router as R

    assume(all_of(rng(fs, 0, len(FIELD_SETS) - 1), rng(pos, -2, max_rules + 1), rng(like, 0, 2)))
    fields = pick(FIELD_SETS, fs)
    # what already sits in the pre-populated slots: 0 an unrelated rule, 1 the SAME rule as the one being added except
    # for its wildcard masks (a range widened / narrowed / added / removed), 2 exactly the rule being added
    lk = pick([0, 1, 2], like)
    with concrete():
        acl = _mk_acl(max_rules, False)
        nreal = len(acl._acl)
        watch = sorted({0, 1, nreal - 1})
    for w, pre in zip(watch, [pre0, pre1, pre2]):
        if pre:
            with concrete():
                if lk == 0:
                    acl._acl[w] = R.ACLRule(action=R.ACLAction.DENY, src_port=22)
                else:
                    kw = {k: v for k, v in fields.items() if v is not None}
                    if lk == 1:
                        for side in ("src", "dst"):
                            if fields[side + "_ip_address"] is not None:
                                kw[side + "_wildcard_mask"] = "0.0.255.255"  # differs from every mask in FIELD_SETS
                    acl._acl[w] = R.ACLRule(action=R.ACLAction.PERMIT if permit else R.ACLAction.DENY, **kw)
                    acl._acl[w].match_count = 3
    with concrete():
        before = list(acl._acl)
    pos = concretize(pos)  # pydantic validate_call boundary
    valid = 0 <= pos < nreal
    raised = None
    resp = None
    try:
        if via_request:
            if remove:
                resp = acl.apply_request(["remove_rule", pos])
            else:
                f = fields
                resp = acl.apply_request(
                    [
                        "add_rule",
                        "PERMIT" if permit else "DENY",
                        f["protocol"] or "ALL",
                        f["src_ip_address"] or "ALL",
                        f["src_wildcard_mask"] or "NONE",
                        "ALL" if f["src_port"] is None else f["src_port"],
                        f["dst_ip_address"] or "ALL",
                        f["dst_wildcard_mask"] or "NONE",
                        "ALL" if f["dst_port"] is None else f["dst_port"],
                        pos,
                    ]
                )
        else:
            if remove:
                acl.remove_rule(pos)
            else:
                acl.add_rule(action=R.ACLAction.PERMIT if permit else R.ACLAction.DENY, position=pos, **fields)
    except ValueError as e:
        raised = e
    except Exception as e:  # anything else is a crash
        fail(f"{'remove_rule' if remove else 'add_rule'}(position={pos}) raised {type(e).__name__}: {e}")
    with concrete():
        after = list(acl._acl)
    check(len(after) == len(before), "the rule list changed length")
    if via_request:
        check(raised is None, lambda: f"request API raised {type(raised).__name__} for position {pos} instead of answering")
        check(resp is not None and resp.status in ("success", "failure"), "request not answered success/failure")
    if valid:
        cover("valid_pos")
        check(raised is None, lambda: f"in-range position {pos} refused: {raised}")
        if via_request:
            check(resp.status == "success", lambda: f"in-range position {pos} answered {resp.status}")
        for i in range(len(before)):
            if i == pos:
                if remove:
                    check(after[i] is None, "remove_rule left the rule in place")
                else:
                    r = after[i]
                    same_as_before = lk == 2 and before[i] is not None  # re-adding exactly the installed rule: keeping the object is fine
                    check(r is not None and (same_as_before or r is not before[i]), "add_rule did not place a new rule at the position")
                    check((r.action == R.ACLAction.PERMIT) == permit, "rule action differs from the one requested")
                    check(r.protocol == fields["protocol"], "rule protocol differs")
                    check(r.src_port == fields["src_port"] and r.dst_port == fields["dst_port"], "rule ports differ (falsy port lost?)")
                    check(
                        (None if r.src_ip_address is None else str(r.src_ip_address)) == fields["src_ip_address"]
                        and (None if r.dst_ip_address is None else str(r.dst_ip_address)) == fields["dst_ip_address"],
                        "rule addresses differ",
                    )
                    check(
                        (None if r.src_wildcard_mask is None else str(r.src_wildcard_mask)) == fields["src_wildcard_mask"]
                        and (None if r.dst_wildcard_mask is None else str(r.dst_wildcard_mask)) == fields["dst_wildcard_mask"],
                        "rule wildcard masks differ",
                    )
                    check(same_as_before or r.match_count == 0, "new rule starts with a non-zero hit counter")
            else:
                check(after[i] is before[i], lambda: f"slot {i} changed although position {pos} was addressed")
    else:
        cover("invalid_pos")
        if via_request:
            check(resp.status == "failure", lambda: f"out-of-range position {pos} answered {resp.status}")
        else:
            check(raised is not None, lambda: f"out-of-range position {pos} accepted")
        for i in range(len(before)):
            check(after[i] is before[i], "refused edit changed the list")


SETUP_POS = [0, 5, 21, 22, 23]


def router_acl_setup(pi: int, op: int, ntype: int):
    """The list a router (or wireless router / firewall) filters with after the per-episode set-up that every reset runs is
    the list that was configured: a rule added at, or the stock rule removed from, a solver-chosen position (including
    the positions 22 / 23 that hold the built-in ARP / ICMP permits) is still there afterwards, no other slot changed,
    and the verdict for an ICMP packet is the one the configured list gives."""
    import primaite.simulator.network.hardware.nodes.network.router as R
    from vlib.fixtures import mk_node, new_sim

    assume(all_of(rng(pi, 0, len(SETUP_POS) - 1), rng(op, 0, 2), rng(ntype, 0, 1)))
    pos = pick(SETUP_POS, pi)
    kind = pick(["add_deny_icmp", "add_permit_tcp", "remove"], op)
    nt = pick(["router", "wireless-router"], ntype)
    with concrete():
        quiet()
        sim = new_sim()
        cfg = {"start_up_duration": 0}
        if nt == "router":
            cfg["num_ports"] = 2
        else:
            cfg["airspace"] = sim.network.airspace
        r = mk_node(nt, "r_setup", **cfg)
        r.power_on()
        sim.network.add_node(r)
        acl = r.acl
        if kind == "add_deny_icmp":
            acl.add_rule(action=R.ACLAction.DENY, protocol="icmp", position=pos)
        elif kind == "add_permit_tcp":
            acl.add_rule(action=R.ACLAction.PERMIT, protocol="tcp", dst_port=80, position=pos)
        else:
            acl.remove_rule(pos)

        def dump():
            return [None if x is None else (x.action.name, x.protocol, x.src_port, x.dst_port, None if x.src_ip_address is None else str(x.src_ip_address), None if x.dst_ip_address is None else str(x.dst_ip_address)) for x in acl.acl]

        before = dump()
        frame = _mk_frame("icmp")
        want = None
        for x in acl.acl:
            if x is not None and (x.protocol in (None, "icmp")) and x.src_port is None and x.dst_port is None and x.src_ip_address is None and x.dst_ip_address is None:
                want = x.action == R.ACLAction.PERMIT
                break
        if want is None:
            want = acl.implicit_action == R.ACLAction.PERMIT
        try:
            r.setup_for_episode(episode=1)
        except Exception as e:
            fail(f"setup_for_episode raised {type(e).__name__}: {e}")
        after = dump()
        permitted, _rule = acl.is_permitted(frame)
    cover("acl_setup")
    diff = [i for i in range(len(before)) if before[i] != after[i]]
    check(not diff, lambda: f"{nt}: the episode set-up changed ACL position(s) {diff} (configured: {kind} at {pos}): {[before[i] for i in diff]} -> {[after[i] for i in diff]}")
    check(bool(permitted) == bool(want), lambda: f"{nt}: after the episode set-up an ICMP packet is {'permitted' if permitted else 'denied'}, the configured list ({kind} at {pos}) says {'permit' if want else 'deny'}")


HARNESSES = {
    "rule_match": {
        "fn": rule_match,
        "quick": [{"fixed": {"fp": k, "rp": r}, "timeout": 300} for k in range(3) for r in range(5)],
        "thorough": [{"fixed": {"fp": k, "rp": r, "action_permit": a}, "timeout": 900} for k in range(3) for r in range(5) for a in (False, True)],
        "cover": ["match", "nomatch"],
        "bounds": "all combinations of specified/unspecified rule fields; addresses 0..2^32-1 and ports 0..65535 as "
        "solver integers; rule protocol in {None,tcp,udp,icmp,none}; frame protocol tcp/udp/icmp",
    },
    "rule_state": {
        "fn": rule_state,
        "quick": [{"fixed": {}, "timeout": 120}],
        "thorough": [{"fixed": {}, "timeout": 120}],
        "cover": ["state"],
        "bounds": "ports 0..65535 as solver integers, specified or not; 5 protocol values",
    },
    "acl_scan": {
        "fn": acl_scan,
        "quick": [
            {"fixed": {"n_slots": 3, "max_rules": 25, "spread": False}, "timeout": 200},
            {"fixed": {"n_slots": 3, "max_rules": 25, "spread": True}, "timeout": 200},
        ],
        "thorough": [
            {"fixed": {"n_slots": 5, "max_rules": 25, "spread": sp, "implicit_permit": ip}, "timeout": 900}
            for sp in (False, True)
            for ip in (False, True)
        ]
        + [{"fixed": {"n_slots": 3, "max_rules": 4, "spread": True}, "timeout": 600}],
        "cover": ["implicit", "explicit", "late_implicit"],
        "bounds": {"quick": "3 slots (adjacent, and spread incl. position 0 and the last slot)", "thorough": "5 slots; lists of 25 and 4"},
    },
    "router_acl_setup": {
        "fn": router_acl_setup,
        "quick": [{"fixed": {}, "timeout": 200}],
        "thorough": [{"fixed": {}, "timeout": 400}],
        "cover": ["acl_setup"],
        "bounds": "a real router / wireless router; a DENY-icmp or PERMIT-tcp rule added at, or the rule removed from, position 0 / 5 / 21 / 22 / 23; then Router.setup_for_episode",
    },
    "acl_edit": {
        "fn": acl_edit,
        "quick": [{"fixed": {"max_rules": 25, "via_request": v, "remove": False, "like": lk}, "timeout": 400} for v in (False, True) for lk in (0, 1, 2)]
        + [{"fixed": {"max_rules": 25, "via_request": v, "remove": True, "like": 0, "fs": 0}, "timeout": 240} for v in (False, True)],
        "thorough": [{"fixed": {"max_rules": mr, "via_request": v, "remove": rm}, "timeout": 900} for mr in (25, 4) for v in (False, True) for rm in (False, True)],
        "cover": ["valid_pos", "invalid_pos"],
        "bounds": "positions -2..max_acl_rules+1 (all), 6 field combinations incl. port 0, equal and different source / destination wildcard masks, Python API and request API; occupied slots hold an unrelated rule, the same rule with other wildcard masks, or exactly the rule being added",
    },
}


# ------------------------------------------------------------------------------------------------ L1 (Engine T)
def _masked_ref(ip: int, base: int, wc: int) -> bool:
    return ((ip ^ base) & ~wc & 0xFFFFFFFF) == 0


def masked_range_replay(ip: int, base: int, wc: int):
    """Concrete replay of an L1 counterexample against the real (validate_call-wrapped) function."""
    from ipaddress import IPv4Address

    import primaite.simulator.network.hardware.nodes.network.router as R

    got = R.ip_matches_masked_range(ip_to_check=IPv4Address(ip), base_ip=IPv4Address(base), wildcard_mask=IPv4Address(wc))
    check(bool(got) == _masked_ref(ip, base, wc), f"ip_matches_masked_range({IPv4Address(ip)}, {IPv4Address(base)}, {IPv4Address(wc)}) = {got}")


def masked_range_smt():
    import random
    from ipaddress import IPv4Address

    import z3

    import primaite.simulator.network.hardware.nodes.network.router as R
    from vlib.py2smt import Obligations, Translator

    tr = Translator()
    ip, base, wc = z3.BitVecs("ip base wc", 32)
    res = tr.call_function(R.ip_matches_masked_range, [ip, base, wc], {})
    ob = Obligations()
    ref = ((ip ^ base) & ~wc) == z3.BitVecVal(0, 32)
    r = ob.prove("ip_matches_masked_range == ((ip^base)&~wc)==0 for all ip,base,wc in BV32", [], res == ref, {"ip": ip, "base": base, "wc": wc})
    # translator validation (Serval-style): encoding vs the real function on the repo's own test inputs + a grid
    cases = [
        ("192.168.10.10", "192.168.1.1", "0.0.255.255"),
        ("192.168.1.10", "192.168.1.0", "0.0.0.255"),
        ("192.168.2.10", "192.168.1.0", "0.0.0.255"),
        ("10.0.0.1", "10.0.0.1", "0.0.0.0"),
        ("10.0.0.2", "10.0.0.1", "0.0.0.0"),
        ("255.255.255.255", "0.0.0.0", "255.255.255.255"),
        ("1.2.3.4", "1.2.3.5", "0.0.0.1"),
    ]
    rnd = random.Random(7)
    grid = [(int(IPv4Address(a)), int(IPv4Address(b)), int(IPv4Address(c))) for a, b, c in cases]
    for _ in range(150):
        b = rnd.getrandbits(32)
        w = rnd.choice([0, 0xFF, 0xFFFF, 0xFFFFFF, rnd.getrandbits(32), 1 << rnd.randrange(32)])
        i = b ^ (rnd.getrandbits(32) & (w if rnd.random() < 0.6 else 0xFFFFFFFF))
        grid.append((i, b, w))
    validated = 0
    for i, b, w in grid:
        enc = z3.simplify(z3.substitute(res, (ip, z3.BitVecVal(i, 32)), (base, z3.BitVecVal(b, 32)), (wc, z3.BitVecVal(w, 32))))
        real = R.ip_matches_masked_range(ip_to_check=IPv4Address(i), base_ip=IPv4Address(b), wildcard_mask=IPv4Address(w))
        if z3.is_true(enc) != bool(real):
            return {"status": "ERROR", "error": f"translator validation: encoding {enc} != real {real} on {(i, b, w)}"}
        validated += 1
    out = {
        "status": r["status"],
        "obligations": len(ob.results),
        "smt_queries": ob.queries,
        "smt_time_s": round(ob.time_s, 3),
        "validated": validated,
        "detail": ob.results,
        "samples": [r.get("assumption_witness", {})],
        "cover": ["l1"],
        "translated": tr.translated,
    }
    if r["status"] == "REFUTED":
        out["cex"] = {"args": r["model"], "kind": "violation", "message": "masked-range kernel differs from bit formula"}
    return out


HARNESSES["masked_range_smt"] = {
    "fn": masked_range_smt,
    "replay_fn": masked_range_replay,
    "kind": "smt",
    "quick": [{"fixed": {}, "timeout": 120}],
    "thorough": [{"fixed": {}, "timeout": 120}],
    "cover": ["l1"],
    "bounds": "all 2^96 (ip, base, wildcard) triples over BV32; translator validated on the repo's test inputs + 150 grid points",
}

"""C10 – an agent's step reward is the weighted sum of its components; shared rewards use same-step values of the
other agent whatever the declaration order; cyclic sharing is rejected at load; sticky components keep their value,
non-sticky ones return to zero; the episode total is the sum of the step rewards.

Lemma structure:
  share_graph  (S) graph_has_cycle / topological_sort on every directed graph over <=4 nodes, every declaration order
  share_game   (S) real PrimaiteGame.from_config -> setup_reward_sharing -> update_agents with real ProxyAgents,
                   RewardFunction and SharedReward objects; base components are registered stub components returning
                   solver integers; arbitrary pre-state (current_reward / total_reward) + k steps
  weighted_sum (S) real RewardFunction built from config, weights from a covering set, symbolic component values
  sticky_step  (S) one calculate() of every state-carrying component from an arbitrary memory value
  episode      (S) real scenario (client + server, real browser / database client / web server), real components,
                   symbolic action sequences and sticky flags, compared with reference components fed from the agents'
                   own history and the post-step state
  wsum_fp_smt  (T) RewardFunction.update translated to FP64: equals the same-order fold for all finite doubles
"""
from __future__ import annotations

import itertools

from vlib import chdriver
from vlib.chdriver import all_of, assume, check, cover, fail, pick, rng
from vlib.fixtures import concrete, quiet

SOURCES = [
    "/repo/src/primaite/game/agent/rewards.py",
    "/repo/src/primaite/game/game.py",
    "/repo/src/primaite/game/science.py",
    "/repo/src/primaite/game/agent/interface.py",
]
ENCODED = [
    "primaite.game.science.graph_has_cycle",
    "primaite.game.science.topological_sort",
    "primaite.game.game.PrimaiteGame.from_config (agents section) / setup_reward_sharing / update_agents",
    "primaite.game.agent.interface.AbstractAgent.update_reward / save_reward_to_history / process_action_response",
    "primaite.game.agent.rewards.RewardFunction.__init__ / register_component / update",
    "primaite.game.agent.rewards.SharedReward.calculate",
    "primaite.game.agent.rewards.WebServer404Penalty.calculate",
    "primaite.game.agent.rewards.WebpageUnavailablePenalty.calculate",
    "primaite.game.agent.rewards.GreenAdminDatabaseUnreachablePenalty.calculate",
    "primaite.game.agent.rewards.DatabaseFileIntegrity.calculate",
    "primaite.game.agent.rewards.ActionPenalty.calculate",
    "primaite.game.agent.rewards.RewardFunction.update translated to FP64 (Engine T)",
    "primaite.session.environment.PrimaiteGymEnv.step / reset and the simulation behind it (episode harness, concrete per path)",
]
ASSUMPTIONS = [
    "share_game / weighted_sum: the non-shared components are instances of a stub component class registered under "
    "the type 'verif-stub' (the plugin mechanism of AbstractReward); it returns a solver integer per agent and step "
    "and records the state / history item it was given. RewardFunction, SharedReward, ProxyAgent, PrimaiteGame are real",
    "weights range over the covering set {0, 1, -1, 0.5, 2.5} (symbolic index), component values are unbounded solver "
    "integers (symbolic weight x symbolic value is non-linear and does not terminate); CrossHair models the float "
    "arithmetic as real arithmetic (float_as_real) - the IEEE-754 behaviour of the fold is decided by wsum_fp_smt "
    "for <= 3 components over all finite doubles",
    "share_game: PrimaiteGame.from_config (agent construction, setup_reward_sharing) runs concretely - the sharing graph "
    "and the declaration order are concrete on every path, one path per graph x order; update_agents and the reward "
    "functions then run symbolically on solver-integer component values, stale rewards and running totals",
    "share_game: shared-reward weights are concrete dyadic values that differ per edge (table rotated by the fixed "
    "parameter ws; with dup an agent holds two shared-reward components per shared agent, listed before its base component); sharing targets are always declared agents (a shared-reward that names an undeclared agent is "
    "outside the property's quantifier)",
    "sticky_step: the component memory is an arbitrary finite real; the browser history has <= 2 entries, the web server "
    "reports <= 2 response codes (the code reads only the last entry / is uniform in the list); when the component's "
    "subject is absent from the state only totality and the range [-1, 1] of a fresh value are checked",
    "sticky_step reference values are the ones documented in the component docstrings: web-server-404 = mean over "
    "this step's codes of (200: +1, 404: -1, other: 0); webpage-unavailable = -1 if the request failed, else by the "
    "latest browser history entry (200: +1, PENDING: 0, anything else: -1, none: 0); green-admin-database = +1/-1 by "
    "the response status; database-file-integrity = +1 good(1) / -1 corrupt(2) / 0 otherwise; action-penalty = "
    "do_nothing_penalty for 'do-nothing' else action_penalty",
    "episode: a bounded exhaustive run - action sequence, sticky flags and declaration order are solver-chosen but "
    "concrete on each path, so PrimaiteGymEnv.step (simulation and reward update) runs concretely, one path per combination; a 'qualifying event' is read from the agent's own history item (request, response) and the post-step state",
    "SysLog/AgentLog/PacketCapture output is stubbed to no-ops",
]

WEIGHTS = [0.0, 1.0, -1.0, 0.5, 2.5]
WEIGHTS_X2 = [0, 2, -2, 1, 5]
SHARE_W = [1.0, 0.5, -1.0, 2.0, 1.5, -0.5, 0.25, 3.0, -2.0, 0.75, 1.25, -1.5]
BASE_W = [1.0, 0.5, -1.0, 2.5]
NAMES = ["ag0", "ag1", "ag2", "ag3"]
PERMS = {n: [list(p) for p in itertools.permutations(range(n))] for n in (1, 2, 3, 4)}

# ----------------------------------------------------------------------------------------------------------- stubs
_CTX = {"values": {}, "calls": []}
_STUB = []


def _stub_cls():
    """Stub reward component, registered once per process through AbstractReward's own plugin mechanism."""
    if _STUB:
        return _STUB[0]
    from typing import Dict

    from primaite.game.agent.rewards import AbstractReward

    class VerifStubReward(AbstractReward, discriminator="verif-stub"):
        class ConfigSchema(AbstractReward.ConfigSchema):
            type: str = "verif-stub"
            key: str = ""

        config: "VerifStubReward.ConfigSchema"

        def calculate(self, state: Dict, last_action_response) -> float:
            _CTX["calls"].append((self.config.key, state, last_action_response))
            return _CTX["values"][self.config.key]

    VerifStubReward.model_rebuild(_types_namespace={"VerifStubReward": VerifStubReward})
    _STUB.append(VerifStubReward)
    return VerifStubReward


def _closure(n, adj):
    """reach[i][j]: a non-empty chain of sharing edges leads from i to j (Warshall)."""
    reach = [[bool(adj[i][j]) for j in range(n)] for i in range(n)]
    for k in range(n):
        for i in range(n):
            for j in range(n):
                if reach[i][k] and reach[k][j]:
                    reach[i][j] = True
    return reach


def _adjacency(n, loops, off, diag):
    """adj[i][j] True: agent i has a shared-reward component naming agent j. Branches on every used flag."""
    adj = [[False] * n for _ in range(n)]
    k = 0
    for i in range(4):
        for j in range(4):
            if i == j:
                continue
            v = off[k]
            k += 1
            if i < n and j < n:
                adj[i][j] = True if v else False
    if loops:
        for i in range(n):
            adj[i][i] = True if diag[i] else False
    return adj


# ------------------------------------------------------------------------------------------------- S2a pure graph
def share_graph(
    e01: bool, e02: bool, e03: bool, e10: bool, e12: bool, e13: bool,
    e20: bool, e21: bool, e23: bool, e30: bool, e31: bool, e32: bool,
    s0: bool, s1: bool, s2: bool, s3: bool,
    perm: int, rev: bool,
    n: int = 3, loops: bool = True, as_set: bool = False,
):
    """graph_has_cycle says 'cyclic' exactly for the graphs with a directed cycle (self-loops included); for acyclic
    graphs topological_sort lists every node once with every dependency before its dependant."""
    from primaite.game.science import graph_has_cycle, topological_sort

    assume(rng(perm, 0, len(PERMS[n]) - 1))
    order = pick(PERMS[n], perm)
    adj = _adjacency(n, loops, [e01, e02, e03, e10, e12, e13, e20, e21, e23, e30, e31, e32], [s0, s1, s2, s3])
    graph = {}
    for i in order:
        cols = list(range(n))
        if rev:
            cols.reverse()
        nb = [NAMES[j] for j in cols if adj[i][j]]
        graph[NAMES[i]] = set(nb) if as_set else nb
    reach = _closure(n, adj)
    cyclic = any(reach[i][i] for i in range(n))
    try:
        got = graph_has_cycle(graph)
    except Exception as e:
        fail(f"graph_has_cycle raised {type(e).__name__} on {graph}")
    check(bool(got) == cyclic, lambda: f"graph_has_cycle({graph}) = {got}, a directed cycle exists: {cyclic}")
    if cyclic:
        cover("cyclic")
        return
    cover("acyclic")
    try:
        out = list(topological_sort(graph))
    except Exception as e:
        fail(f"topological_sort raised {type(e).__name__} on {graph}")
    check(sorted(out) == sorted(NAMES[:n]), lambda: f"topological_sort({graph}) = {out} is not a listing of every node once")
    pos = {name: k for k, name in enumerate(out)}
    for i in range(n):
        for j in range(n):
            if adj[i][j]:
                cover("edge")
                check(
                    pos[NAMES[j]] < pos[NAMES[i]],
                    lambda: f"{NAMES[i]} depends on {NAMES[j]} but is evaluated first: order {out} for {graph}",
                )


# ------------------------------------------------------------------------------------------ S2b/S4 game level
def _share_weights(n, i, j, ws, dup):
    """Weights of agent i's shared-reward components naming agent j (two components when dup)."""
    w = [SHARE_W[(i * n + j + ws) % len(SHARE_W)]]
    if dup:
        w.append(SHARE_W[(i * n + j + ws + 5) % len(SHARE_W)])
    return w


def _game_cfg(n, order, adj, ws, dup=False):
    _stub_cls()
    agents = []
    for i in order:
        comps = [{"type": "verif-stub", "weight": BASE_W[i], "options": {"key": NAMES[i]}}]
        for j in range(n):
            if adj[i][j]:
                for w in _share_weights(n, i, j, ws, dup):
                    comps.append({"type": "shared-reward", "weight": w, "options": {"agent_name": NAMES[j]}})
        if dup:
            comps.reverse()  # shared components first, base component last
        agents.append(
            {
                "ref": NAMES[i],
                "type": "proxy-agent",
                "team": "BLUE",
                "action_space": {"action_map": {0: {"action": "do-nothing", "options": {}}}},
                "reward_function": {"reward_components": comps},
            }
        )
    return {"game": {"ports": [], "protocols": []}, "agents": agents}


def share_game(
    e01: bool, e02: bool, e03: bool, e10: bool, e12: bool, e13: bool,
    e20: bool, e21: bool, e23: bool, e30: bool, e31: bool, e32: bool,
    s0: bool, s1: bool, s2: bool, s3: bool,
    perm: int,
    b00: int, b01: int, b02: int, b10: int, b11: int, b12: int,
    b20: int, b21: int, b22: int, b30: int, b31: int, b32: int,
    c0: int, c1: int, c2: int, c3: int,
    t0: int, t1: int, t2: int, t3: int,
    n: int = 3, loops: bool = False, steps: int = 2, ws: int = 0, dup: bool = False,
):
    """Real game: cyclic sharing is refused by from_config; for every acyclic graph and declaration order each
    agent's step reward is base + sum of weight x SAME-STEP reward of the agents it shares, from an arbitrary
    pre-state (stale current_reward c*, running total t*), and total_reward grows by exactly the step reward."""
    from primaite.game.game import PrimaiteGame

    assume(rng(perm, 0, len(PERMS[n]) - 1))
    order = pick(PERMS[n], perm)
    adj = _adjacency(n, loops, [e01, e02, e03, e10, e12, e13, e20, e21, e23, e30, e31, e32], [s0, s1, s2, s3])
    base = [[b00, b01, b02], [b10, b11, b12], [b20, b21, b22], [b30, b31, b32]]
    cur0, tot0 = [c0, c1, c2, c3], [t0, t1, t2, t3]
    reach = _closure(n, adj)
    cyclic = any(reach[i][i] for i in range(n))
    with concrete():
        quiet()
        cfg = _game_cfg(n, order, adj, ws, dup)
        _CTX["values"] = {}
        _CTX["calls"] = []
    raised = None
    game = None
    with concrete():  # the configuration is concrete on every path (one path per graph x declaration order)
        try:
            game = PrimaiteGame.from_config(cfg)
        except Exception as e:
            raised = e
    if cyclic:
        cover("cyclic_rejected")
        check(raised is not None, lambda: f"cyclic reward sharing {cfg['agents']} was accepted by PrimaiteGame.from_config")
        return
    check(raised is None, lambda: f"acyclic reward sharing refused: {type(raised).__name__}: {raised}")
    cover("acyclic_accepted")
    check(list(game.agents) == [NAMES[i] for i in order], "agents are not registered in declaration order")
    calc = list(game._reward_calculation_order)
    check(sorted(calc) == sorted(NAMES[:n]), lambda: f"reward calculation order {calc} is not a listing of every agent once")
    for i in range(n):
        rf = game.agents[NAMES[i]].reward_function
        check(rf.current_reward == 0 and rf.total_reward == 0, "rewards are not zero before the first action")
        check(len(_CTX["calls"]) == 0, "a reward component was evaluated before the first action")
        # arbitrary pre-state
        rf.current_reward = cur0[i]
        rf.total_reward = tot0[i]
    totals = [tot0[i] for i in range(n)]
    for t in range(steps):
        with concrete():
            _CTX["calls"] = []
            for a in game.agents.values():
                a.store_action(0)
            game.pre_timestep()
            game.apply_agent_actions()
            game.advance_timestep()
            state = game.get_sim_state()
        _CTX["values"] = {NAMES[i]: base[i][t] for i in range(n)}
        try:
            game.update_agents(state)
        except Exception as e:
            fail(f"update_agents raised {type(e).__name__}: {e} (declared {[NAMES[k] for k in order]}, evaluated {calc})")
        memo = {}

        def expected(i):
            if i not in memo:
                v = BASE_W[i] * base[i][t]
                for j in range(n):
                    if adj[i][j]:
                        cover("shared")
                        for w in _share_weights(n, i, j, ws, dup):
                            v = v + w * expected(j)
                memo[i] = v
            return memo[i]

        calls = _CTX["calls"]
        check(len(calls) == n, lambda: f"{len(calls)} base component evaluations in a step with {n} agents")
        seen = []
        for key, st, lar in calls:
            ag = game.agents[key]
            check(key not in seen, "a base component was evaluated twice in one step")
            seen.append(key)
            check(st is state, "a component was evaluated on a state other than the post-step state")
            check(lar is ag.history[-1], "a component was given a history item other than the agent's own latest one")
            check(lar.timestep == t and len(ag.history) == t + 1, "the agent's latest history item is not this step's")
        for i in range(n):
            ag = game.agents[NAMES[i]]
            rf = ag.reward_function
            exp = expected(i)
            check(
                rf.current_reward == exp,
                lambda: f"step {t}: {NAMES[i]} reward {rf.current_reward}, weighted sum with same-step shared values is {exp} "
                f"(declared {[NAMES[k] for k in order]}, evaluated {calc})",
            )
            totals[i] = totals[i] + exp
            check(
                rf.total_reward == totals[i],
                lambda: f"step {t}: {NAMES[i]} total_reward {rf.total_reward}, sum of step rewards is {totals[i]}",
            )
            check(ag.history[-1].reward == exp, "the step reward recorded in the agent history differs from the step reward")
    cover("stepped")


# ------------------------------------------------------------------------------------------------ S1 weighted sum
def weighted_sum(
    k: int,
    w0: int, w1: int, w2: int, w3: int,
    v0: int, v1: int, v2: int, v3: int,
    u0: int, u1: int, u2: int, u3: int,
    cur: int, tot: int,
    nmax: int = 3,
):
    """RewardFunction built from a config with k<=nmax components: update() returns and stores sum(weight*value),
    calls every component once, in order, on the given state/history item, starts from zero on every call and
    leaves total_reward alone."""
    from primaite.game.agent.rewards import RewardFunction

    assume(all_of(rng(k, 0, nmax), *[rng(w, 0, len(WEIGHTS) - 1) for w in [w0, w1, w2, w3][:nmax]]))
    wi = [w0, w1, w2, w3]
    with concrete():
        quiet()
        _stub_cls()
    k = chdriver.concretize(k)
    ws, ws2 = [], []
    for i in range(k):
        idx = chdriver.concretize(wi[i])
        ws.append(WEIGHTS[idx])
        ws2.append(WEIGHTS_X2[idx])
    with concrete():
        comps = [{"type": "verif-stub", "weight": ws[i], "options": {"key": f"c{i}"}} for i in range(k)]
        rf = RewardFunction(config=RewardFunction.ConfigSchema(reward_components=comps))
        state, lar = {"network": {}}, object()
    check(len(rf.reward_components) == k, "the reward function does not hold one entry per configured component")
    rf.current_reward = cur
    rf.total_reward = tot
    for rnd, vals in enumerate(([v0, v1, v2, v3], [u0, u1, u2, u3])):
        _CTX["calls"] = []
        _CTX["values"] = {f"c{i}": vals[i] for i in range(k)}
        try:
            ret = rf.update(state=state, last_action_response=lar)
        except Exception as e:
            fail(f"RewardFunction.update raised {type(e).__name__}: {e}")
        exp = 0
        exp2 = 0
        for i in range(k):
            exp = exp + ws[i] * vals[i]
            exp2 = exp2 + ws2[i] * vals[i]
        check(rf.current_reward == exp, lambda: f"current_reward {rf.current_reward} != weighted sum {exp} (weights {ws})")
        check(2 * rf.current_reward == exp2, lambda: f"2*current_reward {2 * rf.current_reward} != {exp2} (weights {ws})")
        check(ret == rf.current_reward, "update() returns a value different from current_reward")
        check(rf.total_reward == tot, "update() changed total_reward")
        calls = _CTX["calls"]
        check([c[0] for c in calls] == [f"c{i}" for i in range(k)], lambda: f"components evaluated {[c[0] for c in calls]}")
        for _, st, l in calls:
            check(st is state and l is lar, "a component was evaluated on a different state / history item")
        if k == 0:
            cover("empty")
            check(rf.current_reward == 0, "a reward function without components does not yield 0")
    cover("summed")


# ------------------------------------------------------------------------------------------- S3 sticky components
REQ_KINDS = ["qualifying", "do-nothing", "other_node", "other_app", "longer"]
STATUSES = ["success", "failure", "unreachable", "pending"]
OUTCOME_KINDS = ["code", "PENDING", "SERVER_UNREACHABLE"]
COMPONENTS = ["web404", "webpage", "dbadmin", "dbfile", "action"]


def _request(kind, app):
    if kind == "qualifying":
        return ["network", "node", "client", "application", app, "execute"]
    if kind == "do-nothing":
        return ["do-nothing"]
    if kind == "other_node":
        return ["network", "node", "client_b", "application", app, "execute"]
    if kind == "other_app":
        return ["network", "node", "client", "application", "some-other-app", "execute"]
    return ["network", "node", "client", "application", app, "execute", "extra"]


def _hist_item(request, status, action="node-application-execute"):
    from primaite.game.agent.interface import AgentHistoryItem
    from primaite.interface.request import RequestResponse

    return AgentHistoryItem(timestep=0, action=action, parameters={}, request=request, response=RequestResponse(status=status, data={}))


def sticky_step(
    mem: float, sticky: bool, rk: int, stat: int, present: bool,
    nitems: int, k1: int, code1: int, k2: int, code2: int,
    health: int, pa: int, pn: int, nothing: bool,
    comp: str = "webpage",
):
    """One calculate() from an arbitrary memory value: qualifying event => documented fresh value (and it becomes
    the memory); no event and sticky => the memory, unchanged; no event and not sticky => 0 (and memory 0)."""
    import primaite.game.agent.rewards as RW

    assume(all_of(rng(rk, 0, len(REQ_KINDS) - 1), rng(stat, 0, 3), rng(nitems, 0, 2), rng(k1, 0, 2), rng(k2, 0, 2)))
    assume(all_of(mem > -1e300, mem < 1e300))  # finite, not NaN
    kind = pick(REQ_KINDS, rk)
    status = pick(STATUSES, stat)
    nitems = chdriver.concretize(nitems)

    def score_web(c):
        return 1 if c == 200 else (-1 if c == 404 else 0)

    if comp == "web404":
        with concrete():
            quiet()
            c = RW.WebServer404Penalty(config=RW.WebServer404Penalty.ConfigSchema(node_hostname="server", service_name="web-server"))
            lar = _hist_item(_request(kind, "web-browser"), status)
        c.config.sticky = sticky
        c.reward = mem
        codes = [code1, code2][:nitems]
        svc = {"response_codes_this_timestep": codes}
        state = {"network": {"nodes": {"server": {"services": ({"web-server": svc} if present else {})}}}}
        try:
            got = c.calculate(state, lar)
        except Exception as e:
            fail(f"WebServer404Penalty.calculate raised {type(e).__name__}: {e}")
        if not present:
            cover("absent")
            check(got == 0, "web-server-404 penalty is non-zero although the service is not installed")
            return
        if nitems > 0:
            cover("event")
            tot = 0
            for x in codes:
                tot = tot + score_web(x)
            check(got * nitems == tot, lambda: f"codes {codes}: reward {got}, documented mean is {tot}/{nitems}")
            check(c.reward == got, "fresh value not remembered")
        elif sticky:
            cover("sticky_keep")
            check(got == mem and c.reward == mem, lambda: f"sticky component without event returned {got}, memory was {mem}")
        else:
            cover("nonsticky_zero")
            check(got == 0 and c.reward == 0, lambda: f"non-sticky component without event returned {got}")
        return

    if comp == "webpage":
        with concrete():
            quiet()
            c = RW.WebpageUnavailablePenalty(config=RW.WebpageUnavailablePenalty.ConfigSchema(node_hostname="client"))
            lar = _hist_item(_request(kind, "web-browser"), status)
        c.config.sticky = sticky
        c.reward = mem
        outs = []
        for kk, cc in [(k1, code1), (k2, code2)][:nitems]:
            ok = pick(OUTCOME_KINDS, kk)
            outs.append({"url": "http://x", "outcome": cc if ok == "code" else ok})
        apps = {"web-browser": {"history": outs}} if present else {}
        state = {"network": {"nodes": {"client": {"applications": apps}}}}
        try:
            got = c.calculate(state, lar)
        except Exception as e:
            fail(f"WebpageUnavailablePenalty.calculate raised {type(e).__name__}: {e}")
        if not present:
            cover("absent")
            check(-1 <= got <= 1, "value outside [-1,1]")
            if kind == "qualifying":
                # docstring: a browser request that FAILS is tracked whatever the browser last showed - also when the
                # browser is not reported in the state (e.g. it was uninstalled and the request is unreachable)
                exp = -1 if status != "success" else 0
                check(got == exp, lambda: f"browser not in the state, request {status}: reward {got}, documented {exp}")
            return
        if kind == "qualifying":
            cover("event")
            if status != "success":
                exp = -1
            elif nitems == 0:
                exp = 0
            else:
                last = outs[-1]["outcome"]
                if isinstance(last, str):
                    exp = 0 if last == "PENDING" else -1
                else:
                    exp = 1 if last == 200 else -1
            check(got == exp, lambda: f"browser request {status}, history {outs}: reward {got}, documented {exp}")
            check(c.reward == got, "fresh value not remembered")
        elif sticky:
            cover("sticky_keep")
            check(got == mem and c.reward == mem, lambda: f"sticky component without event returned {got}, memory was {mem}")
        else:
            cover("nonsticky_zero")
            check(
                got == 0 and c.reward == 0,
                lambda: f"non-sticky webpage-unavailable-penalty returned {got} on a step without a browser request "
                f"(last request {lar.request}, response {status}, history {outs})",
            )
        return

    if comp == "dbadmin":
        with concrete():
            quiet()
            c = RW.GreenAdminDatabaseUnreachablePenalty(config=RW.GreenAdminDatabaseUnreachablePenalty.ConfigSchema(node_hostname="client"))
            lar = _hist_item(_request(kind, "database-client"), status)
        c.config.sticky = sticky
        c.reward = mem
        try:
            got = c.calculate({"network": {"nodes": {}}}, lar)
        except Exception as e:
            fail(f"GreenAdminDatabaseUnreachablePenalty.calculate raised {type(e).__name__}: {e}")
        if kind == "qualifying":
            cover("event")
            exp = 1 if status == "success" else -1
            check(got == exp and c.reward == exp, lambda: f"database request {status}: reward {got}, documented {exp}")
        elif sticky:
            cover("sticky_keep")
            check(got == mem and c.reward == mem, lambda: f"sticky component without event returned {got}, memory was {mem}")
        else:
            cover("nonsticky_zero")
            check(got == 0 and c.reward == 0, lambda: f"non-sticky component without event returned {got}")
        return

    if comp == "dbfile":
        with concrete():
            quiet()
            c = RW.DatabaseFileIntegrity(config=RW.DatabaseFileIntegrity.ConfigSchema(node_hostname="server", folder_name="database", file_name="database.db"))
            lar = _hist_item(_request(kind, "web-browser"), status)
        c.reward = mem
        files = {"database.db": {"health_status": health}} if present else {}
        state = {"network": {"nodes": {"server": {"file_system": {"folders": {"database": {"files": files}}}}}}}
        try:
            got = c.calculate(state, lar)
        except Exception as e:
            fail(f"DatabaseFileIntegrity.calculate raised {type(e).__name__}: {e}")
        if not present:
            cover("absent")
            exp = 0
        else:
            cover("event")
            exp = 1 if health == 1 else (-1 if health == 2 else 0)
        check(got == exp, lambda: f"file health {health} present={present}: reward {got}, documented {exp}")
        return

    if comp == "action":
        with concrete():
            quiet()
            c = RW.ActionPenalty(config=RW.ActionPenalty.ConfigSchema(type="action-penalty"))
            lar = _hist_item(_request(kind, "web-browser"), status, action="do-nothing" if nothing else "node-application-execute")
        c.config.action_penalty = pa
        c.config.do_nothing_penalty = pn
        try:
            got = c.calculate({"network": {}}, lar)
        except Exception as e:
            fail(f"ActionPenalty.calculate raised {type(e).__name__}: {e}")
        cover("event")
        check(got == (pn if nothing else pa), lambda: f"action penalty {got} for nothing={nothing} (penalties {pa}/{pn})")
        return
    raise chdriver.HarnessError(comp)


# ------------------------------------------------------------------ documented fresh values (component docstrings)
def _doc_web404(codes):
    tot = 0
    for x in codes:
        tot = tot + (1 if x == 200 else (-1 if x == 404 else 0))
    return tot / len(codes)


def _doc_webpage(status, outcomes):
    if status != "success":
        return -1
    if not outcomes:
        return 0
    last = outcomes[-1]
    if isinstance(last, str):
        return 0 if last == "PENDING" else -1
    return 1 if last == 200 else -1


# ------------------------------------------------------------------------------- bounded run of a real scenario
G_ACTIONS = {
    0: {"action": "do-nothing", "options": {}},
    1: {"action": "node-application-execute", "options": {"node_name": "client", "application_name": "web-browser"}},
    2: {"action": "node-application-execute", "options": {"node_name": "client", "application_name": "database-client"}},
}
B_ACTIONS = {
    0: {"action": "do-nothing", "options": {}},
    1: {"action": "node-service-stop", "options": {"node_name": "server", "service_name": "web-server"}},
    2: {"action": "node-service-start", "options": {"node_name": "server", "service_name": "web-server"}},
    3: {"action": "node-service-stop", "options": {"node_name": "server", "service_name": "database-service"}},
    4: {"action": "node-service-start", "options": {"node_name": "server", "service_name": "database-service"}},
    5: {"action": "node-file-corrupt", "options": {"node_name": "server", "folder_name": "database", "file_name": "database.db"}},
}
W_ACTIONS = {
    0: {"action": "do-nothing", "options": {}},
    1: {"action": "node-service-scan", "options": {"node_name": "server", "service_name": "web-server"}},
}
EP_AGENTS = ["watch", "blue", "green"]
# (type, weight, options)   weights are dyadic so the concrete replay is exact
EP_REWARDS = {
    "watch": [("action-penalty", 2.0, {"action_penalty": -0.5, "do_nothing_penalty": 0.25}), ("shared-reward", 0.5, {"agent_name": "blue"})],
    "blue": [
        ("web-server-404-penalty", 1.0, {"node_hostname": "server", "service_name": "web-server"}),
        ("database-file-integrity", 0.5, {"node_hostname": "server", "folder_name": "database", "file_name": "database.db"}),
        ("action-penalty", 0.25, {"action_penalty": -0.5, "do_nothing_penalty": 0.0}),
        ("shared-reward", 1.0, {"agent_name": "green"}),
    ],
    "green": [
        ("webpage-unavailable-penalty", 0.25, {"node_hostname": "client"}),
        ("green-admin-database-unreachable-penalty", -1.5, {"node_hostname": "client"}),
    ],
}
BROWSE_REQ = ["network", "node", "client", "application", "web-browser", "execute"]
DBQ_REQ = ["network", "node", "client", "application", "database-client", "execute"]


def _episode_cfg(order, sticky):
    amaps = {"watch": W_ACTIONS, "blue": B_ACTIONS, "green": G_ACTIONS}
    agents = []
    for i in order:
        name = EP_AGENTS[i]
        comps = []
        for typ, w, opts in EP_REWARDS[name]:
            o = dict(opts)
            if typ in sticky:
                o["sticky"] = sticky[typ]
            comps.append({"type": typ, "weight": w, "options": o})
        agents.append(
            {"ref": name, "team": "GREEN" if name == "green" else "BLUE", "type": "proxy-agent",
             "action_space": {"action_map": {k: dict(v) for k, v in amaps[name].items()}},
             "reward_function": {"reward_components": comps}}
        )
    nodes = [
        {"hostname": "client", "type": "computer", "ip_address": "192.168.1.2", "subnet_mask": "255.255.255.0",
         "applications": [{"type": "web-browser", "options": {"target_url": "http://192.168.1.10/"}},
                          {"type": "database-client", "options": {"db_server_ip": "192.168.1.10"}}]},
        {"hostname": "server", "type": "server", "ip_address": "192.168.1.10", "subnet_mask": "255.255.255.0",
         "services": [{"type": "web-server"}, {"type": "database-service"}]},
    ]
    links = [{"endpoint_a_hostname": "client", "endpoint_a_port": 1, "endpoint_b_hostname": "server", "endpoint_b_port": 1}]
    return {
        "io_settings": {"save_agent_actions": False, "save_step_metadata": False, "save_pcap_logs": False, "save_sys_logs": False, "save_agent_logs": False},
        "game": {"max_episode_length": 256, "ports": ["HTTP", "POSTGRES_SERVER", "ARP", "DNS"], "protocols": ["ICMP", "TCP", "UDP"]},
        "agents": agents,
        "simulation": {"network": {"nodes": nodes, "links": links}},
    }


class _RefComponent:
    """Reference component, written from the property statement: a qualifying event yields the documented fresh
    value, otherwise a sticky component repeats its last value and a non-sticky one yields 0."""

    def __init__(self, typ, opts, sticky):
        self.typ, self.opts, self.sticky, self.mem = typ, opts, sticky, 0

    def value(self, state, item):
        nodes = state["network"]["nodes"]
        if self.typ == "action-penalty":
            return self.opts["do_nothing_penalty"] if item.action == "do-nothing" else self.opts["action_penalty"]
        if self.typ == "database-file-integrity":
            h = nodes["server"]["file_system"]["folders"]["database"]["files"]["database.db"]["health_status"]
            return 1 if h == 1 else (-1 if h == 2 else 0)
        if self.typ == "web-server-404-penalty":
            codes = nodes["server"]["services"]["web-server"]["response_codes_this_timestep"]
            event, fresh = len(codes) > 0, (lambda: _doc_web404([int(c) for c in codes]))
        elif self.typ == "webpage-unavailable-penalty":
            hist = [h["outcome"] for h in nodes["client"]["applications"]["web-browser"]["history"]]
            event, fresh = item.request == BROWSE_REQ, (lambda: _doc_webpage(item.response.status, hist))
        elif self.typ == "green-admin-database-unreachable-penalty":
            event, fresh = item.request == DBQ_REQ, (lambda: 1 if item.response.status == "success" else -1)
        else:
            raise chdriver.HarnessError(self.typ)
        if event:
            cover("ev_" + self.typ)
            self.mem = fresh()
        elif not self.sticky:
            self.mem = 0
        return self.mem


def episode(
    a0: int, a1: int, a2: int, a3: int,
    st404: bool, stweb: bool, stdb: bool,
    perm: int,
    steps: int = 2,
):
    """Real PrimaiteGymEnv on a client+server scenario: symbolic action sequence (green: nothing/browse/db query;
    blue: nothing/stop+start web server/stop+start database/corrupt the database file), sticky flags and agent
    declaration order; every agent's step reward, the reward returned by env.step, the history record and the
    running totals equal the reference built from the statement; env.reset() records that total and starts at zero."""
    acts = [a0, a1, a2, a3][:steps]
    assume(all_of(rng(perm, 0, 5), *[rng(a, 0, 17) for a in acts]))
    order = pick(PERMS[3], perm)
    acts = [chdriver.concretize(a) for a in acts]
    sticky = {
        "web-server-404-penalty": True if st404 else False,
        "webpage-unavailable-penalty": True if stweb else False,
        "green-admin-database-unreachable-penalty": True if stdb else False,
    }
    with concrete():
        quiet()
        from primaite.session.environment import PrimaiteGymEnv

        env = PrimaiteGymEnv(env_config=_episode_cfg(order, sticky))
        game = env.game
        first = EP_AGENTS[order[0]]
        refs = {n: [(_RefComponent(t, o, sticky.get(t, True)) if t != "shared-reward" else None) for t, w, o in EP_REWARDS[n]] for n in EP_AGENTS}
        totals = {n: 0 for n in EP_AGENTS}
        problems = []
        for n in EP_AGENTS:
            rf = game.agents[n].reward_function
            if rf.current_reward != 0 or rf.total_reward != 0:
                problems.append(f"{n}: rewards not zero before the first action")
        for t, a in enumerate(acts):
            choice = {"green": a % 3, "blue": a // 3, "watch": t % 2}
            for n in EP_AGENTS:
                game.agents[n].store_action(choice[n])
            try:
                _obs, ret, _term, _trunc, _info = env.step(choice[first])
            except Exception as e:
                problems.append(f"env.step raised {type(e).__name__}: {e}")
                break
            state = game.get_sim_state()
            memo = {}

            def expected(n):
                if n not in memo:
                    item = game.agents[n].history[-1]
                    v = 0
                    for (typ, w, opts), ref in zip(EP_REWARDS[n], refs[n]):
                        if typ == "shared-reward":
                            v = v + w * expected(opts["agent_name"])
                        else:
                            v = v + w * ref.value(state, item)
                    memo[n] = v
                return memo[n]

            for n in reversed(EP_AGENTS):  # dependencies first, so the first problem reported is the root cause
                ag = game.agents[n]
                exp = expected(n)
                totals[n] = totals[n] + exp
                item = ag.history[-1]
                ctx = f"step {t} actions {choice} sticky {list(sticky.values())} declared {[EP_AGENTS[i] for i in order]}"
                if item.timestep != t or len(ag.history) != t + 1:
                    problems.append(f"{ctx}: {n} history is out of step")
                if ag.reward_function.current_reward != exp:
                    problems.append(f"{ctx}: {n} reward {ag.reward_function.current_reward}, reference {exp} (request {item.request} -> {item.response.status})")
                if item.reward != exp:
                    problems.append(f"{ctx}: {n} history reward {item.reward}, reference {exp}")
                if ag.reward_function.total_reward != totals[n]:
                    problems.append(f"{ctx}: {n} total_reward {ag.reward_function.total_reward}, sum of step rewards {totals[n]}")
            if ret != expected(first):
                problems.append(f"step {t}: env.step returned {ret}, reference reward of {first} is {expected(first)}")
            if problems:
                break
        if not problems:
            # end of episode: the recorded episode total is the sum of the step rewards; the next episode starts at 0
            try:
                env.reset()
            except Exception as e:
                problems.append(f"env.reset raised {type(e).__name__}: {e}")
            else:
                if env.total_reward_per_episode.get(0) != totals[first]:
                    problems.append(f"episode total recorded {env.total_reward_per_episode.get(0)}, sum of {first}'s step rewards {totals[first]}")
                for n in EP_AGENTS:
                    rf = env.game.agents[n].reward_function
                    if rf.current_reward != 0 or rf.total_reward != 0 or len(env.game.agents[n].history) != 0:
                        problems.append(f"{n}: reward state carried over into the next episode")
    check(not problems, lambda: "; ".join(problems[:3]))
    cover("episode")


# ------------------------------------------------------------------------------------------------ T1 (Engine T)
def _real_update(ws, vs):
    """The real RewardFunction.update on stub components with concrete doubles."""
    from primaite.game.agent.rewards import RewardFunction

    _stub_cls()
    comps = [{"type": "verif-stub", "weight": float(w), "options": {"key": f"c{i}"}} for i, w in enumerate(ws)]
    rf = RewardFunction(config=RewardFunction.ConfigSchema(reward_components=comps))
    _CTX["calls"] = []
    _CTX["values"] = {f"c{i}": v for i, v in enumerate(vs)}
    return rf.update(state={}, last_action_response=None), rf


def _fold(ws, vs):
    acc = 0.0
    for w, v in zip(ws, vs):
        acc = acc + w * v
    return acc


def _same_float(a, b):
    import math

    return (math.isnan(a) and math.isnan(b)) or (a == b and math.copysign(1.0, a) == math.copysign(1.0, b))


def wsum_fp_replay(n: int = 3, w0: float = 0.0, v0: float = 0.0, w1: float = 0.0, v1: float = 0.0, w2: float = 0.0, v2: float = 0.0, drop: int = -1, **lemma):
    import math

    if lemma:  # counterexample to one of the arithmetic lemmas: re-check it in IEEE doubles (Python floats)
        f = {k: float(v) for k, v in lemma.items()}
        sim = lambda a, b: a == b or (math.isnan(a) and math.isnan(b))
        if "x" in f and "y" in f:
            check(not sim(f["x"], f["y"]) or sim(f["x"] + f["p"], f["y"] + f["p"]), f"Z-congruence fails on {f}")
        elif "bstep" in f:
            b = [0.0, 1e300, 1e300 + 1e300, 1e300 + 1e300 + 1e300]
            k = int(f["bstep"])
            check(not (abs(f["x"]) <= b[k] and abs(f["p"]) <= 1e300) or abs(f["x"] + f["p"]) <= b[k + 1], f"lemma B-step fails on {f}")
        elif "x" in f:
            check(f["p"] != 0.0 or sim(f["x"] + f["p"], f["x"]), f"Z-absorb fails on {f}")
        else:
            ps = [f[k] for k in sorted(f) if k.startswith("p")]
            acc = 0.0
            for x in ps:
                acc = acc + x
            check(not all(abs(x) <= 1e300 for x in ps) or math.isfinite(acc), f"lemma B fails on {ps}")
            for k, z in enumerate(ps):
                if z == 0.0 and not any(math.isnan(x) for x in ps):
                    acck = 0.0
                    for i, x in enumerate(ps):
                        if i != k:
                            acck = acck + x
                    check(sim(acc, acck), f"lemma Z fails on {ps} term {k}")
        return
    if drop == 0 and n == 1 and w0 == 0.0 and math.isfinite(v0):
        check(w0 * v0 == 0.0, f"lemma Z0 fails on {w0}*{v0}")
    if n == 1 and abs(w0) <= 1e150 and abs(v0) <= 1e150:
        check(abs(w0 * v0) <= 1e300, f"lemma A fails on {w0}*{v0}")
    ws, vs = [w0, w1, w2][:n], [v0, v1, v2][:n]
    got, rf = _real_update(ws, vs)
    exp = _fold(ws, vs)
    check(got == exp or (math.isnan(got) and math.isnan(exp)), f"RewardFunction.update({ws},{vs}) = {got!r}, left-to-right fold = {exp!r}")
    check(_same_float(rf.current_reward, got), "current_reward differs from the returned value")
    if 0 <= drop < n and ws[drop] == 0.0:
        ws2, vs2 = ws[:drop] + ws[drop + 1:], vs[:drop] + vs[drop + 1:]
        got2, _ = _real_update(ws2, vs2)
        check(got2 == got, f"zero-weight component {drop} changes the reward: {got!r} vs {got2!r}")


def wsum_fp_smt(tier: str = "quick"):
    """FP64: RewardFunction.update with n<=3 components, symbolic finite weights AND values."""
    import random

    import z3

    from primaite.game.agent.rewards import RewardFunction
    from vlib.py2smt import FP64, Obligations, Rec, Translator, _Intrinsic, _val

    ob = Obligations(timeout_ms=150000)
    _prove = ob.prove

    def prove_retry(name, assumptions, claim, wit=None):
        """z3's FP procedure is sensitive to term numbering: an 'unknown' is retried with other seeds (sound: only an
        unsat answer counts as proved)."""
        rec = None
        for seed in (0, 7, 23):
            z3.set_param("smt.random_seed", seed)
            z3.set_param("sat.random_seed", seed)
            rec = _prove(name, assumptions, claim, wit)
            if rec["status"] != "INCONCLUSIVE":
                break
            ob.results.pop()
        else:
            ob.results.append(rec)
        return rec

    ob.prove = prove_retry
    rne = z3.RNE()
    fin = lambda x: z3.Not(z3.Or(z3.fpIsNaN(x), z3.fpIsInf(x)))
    translated = []
    encodings = {}

    def encode(ws, vs):
        tr = Translator()
        comps = [Rec({"calculate": _Intrinsic("calculate", (lambda state=None, last_action_response=None, v=v: v))}, tag="comp") for v in vs]
        rf = Rec({"reward_components": [(c, w) for c, w in zip(comps, ws)], "current_reward": z3.FP("cur_pre", FP64)}, tag="rf")
        res = tr.call_function(RewardFunction.update, [rf, Rec({}, tag="state"), Rec({}, tag="item")], {})
        translated.extend(tr.translated)
        return res, rf.fields["current_reward"]

    W = [z3.FP(f"w{i}", FP64) for i in range(3)]
    V = [z3.FP(f"v{i}", FP64) for i in range(3)]
    try:
        for n in range(0, 4):
            ws, vs = W[:n], V[:n]
            res, stored = encode(ws, vs)
            encodings[n] = res
            if n == 0:
                ok = (not z3.is_expr(res) and res == 0.0) or (z3.is_expr(res) and z3.is_true(z3.simplify(res == z3.FPVal(0.0, FP64))))
                ob.results.append({"name": "n=0: reward is +0.0", "status": "CONFIRMED" if ok else "REFUTED", "model": {}})
                continue
            acc = z3.FPVal(0.0, FP64)
            for w, v in zip(ws, vs):
                acc = z3.fpAdd(rne, acc, z3.fpMul(rne, w, v))
            wit = {"n": z3.IntVal(n)}
            wit.update({f"w{i}": W[i] for i in range(n)})
            wit.update({f"v{i}": V[i] for i in range(n)})
            base = [fin(x) for x in ws + vs]
            same = z3.Or(z3.fpEQ(res, acc), z3.And(z3.fpIsNaN(res), z3.fpIsNaN(acc)))  # numeric equality (+0 == -0) or both NaN
            ob.prove(f"n={n}: update() == ((0.0 + w0*v0) + w1*v1 ...) in that order, and it is what current_reward holds", base, z3.And(same, stored == res), wit)
            # (zero-weight components: lemma Z below, on the products)
            # finiteness, by composition with the fold obligation above: every product is bounded (lemma A,
            # proved once below) and the same-order sum of n bounded terms is finite (lemma B_n)
            P = [z3.FP(f"p{i}", FP64) for i in range(n)]
            accp = z3.FPVal(0.0, FP64)
            for pterm in P:
                accp = z3.fpAdd(rne, accp, pterm)
            lim = z3.FPVal(1e300, FP64)
            if n <= 2:  # direct; for n = 3 the chain of single-addition lemmas B-step below
                ob.prove(
                    f"n={n}: lemma B: |p_i| <= 1e300 => ((0.0 + p0) + p1 ...) is finite",
                    [z3.fpLEQ(z3.fpAbs(x), lim) for x in P],
                    fin(accp),
                    {f"p{i}": P[i] for i in range(n)},
                )
            # a component with weight 0 contributes nothing: its product is a zero (lemma Z0 below) and a zero term
            # does not change the same-order sum (lemma Z_n,k); composed with the fold obligation above
            for k in range(n if n <= 2 else 0):  # direct proof for n <= 2; any n by lemmas Z-absorb + Z-congruence
                acck = z3.FPVal(0.0, FP64)
                for i2, pterm in enumerate(P):
                    if i2 != k:
                        acck = z3.fpAdd(rne, acck, pterm)
                ob.prove(
                    f"n={n}: lemma Z: term {k} is a zero => the sum equals the sum without term {k}",
                    [z3.Not(z3.fpIsNaN(x)) for x in P] + [z3.fpIsZero(P[k])],
                    z3.Or(z3.fpEQ(accp, acck), z3.And(z3.fpIsNaN(accp), z3.fpIsNaN(acck))),
                    {f"p{i}": P[i] for i in range(n)},
                )
        ob.prove(
            "lemma Z0: w is a zero and v finite => fl(w*v) is a zero",
            [z3.fpIsZero(W[0]), fin(V[0])],
            z3.fpIsZero(z3.fpMul(rne, W[0], V[0])),
            {"n": z3.IntVal(1), "w0": W[0], "v0": V[0], "drop": z3.IntVal(0)},
        )
        X, Y, Pz = z3.FP("x", FP64), z3.FP("y", FP64), z3.FP("p", FP64)
        sim = lambda a, b: z3.Or(z3.fpEQ(a, b), z3.And(z3.fpIsNaN(a), z3.fpIsNaN(b)))
        ob.prove(
            "lemma Z-absorb: adding a zero term leaves the running sum numerically unchanged",
            [z3.fpIsZero(Pz)],
            sim(z3.fpAdd(rne, X, Pz), X),
            {"x": X, "p": Pz},
        )
        # Z-congruence: numerically equal running sums stay equal after adding the same term. Split in two: (a) two
        # numerically equal doubles are identical or both zeros (no arithmetic), (b) the addition lemma for two zeros;
        # for identical operands congruence is reflexivity. With Z0 and Z-absorb, by induction over the fold, a
        # zero-weight component never changes the reward, for any number of components.
        ob.prove(
            "lemma Z-congruence (a): x ~ y => x and y are the same double or both are zeros",
            [sim(X, Y)],
            z3.Or(X == Y, z3.And(z3.fpIsZero(X), z3.fpIsZero(Y))),
            {"x": X, "y": Y, "p": Pz},
        )
        ob.prove(
            "lemma Z-congruence (b): x, y zeros => fl(x+p) ~ fl(y+p)",
            [z3.fpIsZero(X), z3.fpIsZero(Y)],
            sim(z3.fpAdd(rne, X, Pz), z3.fpAdd(rne, Y, Pz)),
            {"x": X, "y": Y, "p": Pz},
        )
        bound = 0.0
        for kstep in range(3):
            nxt = bound + 1e300
            ob.prove(
                f"lemma B-step {kstep}: |x| <= {bound!r} and |p| <= 1e300 => |fl(x+p)| <= {nxt!r} (finite); chained from 0.0 "
                f"this bounds the running sum after {kstep + 1} term(s)",
                [z3.fpLEQ(z3.fpAbs(X), z3.FPVal(bound, FP64)), z3.fpLEQ(z3.fpAbs(Pz), z3.FPVal(1e300, FP64))],
                z3.fpLEQ(z3.fpAbs(z3.fpAdd(rne, X, Pz)), z3.FPVal(nxt, FP64)),
                {"x": X, "p": Pz, "bstep": z3.IntVal(kstep)},
            )
            bound = nxt
        big = z3.FPVal(1e150, FP64)
        ob.prove(
            "lemma A: |w|,|v| <= 1e150 => |fl(w*v)| <= 1e300",
            [z3.fpLEQ(z3.fpAbs(W[0]), big), z3.fpLEQ(z3.fpAbs(V[0]), big)],
            z3.fpLEQ(z3.fpAbs(z3.fpMul(rne, W[0], V[0])), z3.FPVal(1e300, FP64)),
            {"n": z3.IntVal(1), "w0": W[0], "v0": V[0]},
        )
    except Exception as e:
        return {"status": "ERROR", "error": f"RewardFunction.update not translatable: {type(e).__name__}: {e}"}

    status, cex = "CONFIRMED", None
    for r in ob.results:
        if r["status"] == "REFUTED":
            status, cex = "REFUTED", r
            break
        if r["status"] != "CONFIRMED":
            status = "ERROR" if r["status"] == "ERROR" else "INCONCLUSIVE"
    # translator validation: the encoding evaluated on concrete doubles vs the real RewardFunction.update
    rnd = random.Random(11)
    pool = [0.0, -0.0, 1.0, -1.0, 0.5, 2.5, 0.1, 0.3, 1e-320, 1e308, -1e308, 3.0, 1 / 3, 2.0**53, 2.0**53 + 2]
    validated = 0
    for _ in range(120):
        n = rnd.randint(1, 3)
        ws = [rnd.choice(pool + [rnd.uniform(-3, 3)]) for _ in range(n)]
        vs = [rnd.choice(pool + [rnd.uniform(-3, 3), float(rnd.randint(-5, 5))]) for _ in range(n)]
        sub = [(W[i], z3.FPVal(ws[i], FP64)) for i in range(n)] + [(V[i], z3.FPVal(vs[i], FP64)) for i in range(n)]
        s = z3.Solver()
        out = z3.FP("out", FP64)
        s.add(out == z3.substitute(encodings[n], *sub))
        if s.check() != z3.sat:
            return {"status": "ERROR", "error": "translator validation: encoding not evaluable"}
        enc = _val(s.model(), out)
        enc = float(enc) if not isinstance(enc, float) else enc
        real, _rf = _real_update(ws, vs)
        if not _same_float(float(real), enc):
            return {"status": "ERROR", "error": f"translator validation: encoding {enc!r} != real {real!r} on {ws} {vs}"}
        validated += 1
    out = {
        "status": status,
        "obligations": len(ob.results),
        "smt_queries": ob.queries,
        "smt_time_s": round(ob.time_s, 3),
        "validated": validated,
        "detail": ob.results,
        "samples": [r.get("assumption_witness", {}) for r in ob.results if r.get("assumption_witness")][:2],
        "cover": ["fp"],
        "translated": sorted(set(translated)),
    }
    if cex is not None:
        out["cex"] = {"args": cex.get("model", {}), "kind": "violation", "message": cex["name"]}
    return out


HARNESSES = {
    "share_graph": {
        "fn": share_graph,
        "quick": [{"fixed": {"n": 3, "loops": True, "as_set": s, "rev": r}, "timeout": 200} for s, r in ((False, False), (False, True), (True, False))]
        + [{"fixed": {"n": 4, "loops": False, "as_set": True, "rev": False, "perm": p}, "timeout": 200} for p in (0, 23)],
        "thorough": [{"fixed": {"n": 4, "loops": False, "as_set": s, "perm": p}, "timeout": 1200} for s in (False, True) for p in range(24)]
        + [{"fixed": {"n": 4, "loops": True, "as_set": True, "perm": p, "rev": False, "s0": a, "s1": b}, "timeout": 1200} for p in (0, 9, 23) for a in (False, True) for b in (False, True)],
        "cover": ["cyclic", "acyclic", "edge"],
        "bounds": {
            "quick": "every directed graph on 3 nodes incl. self-loops (2^9) x all 6 declaration orders x neighbour order; every loop-free graph on 4 nodes (2^12) for 2 declaration orders",
            "thorough": "every loop-free directed graph on 4 nodes (2^12) x all 24 declaration orders x neighbour order x list/set neighbours; every graph on 4 nodes with self-loops (2^16) for 3 declaration orders",
        },
    },
    "share_game": {
        "fn": share_game,
        "quick": [{"fixed": {"n": 3, "loops": True, "steps": 2, "ws": 0, "s0": a, "dup": a}, "timeout": 240} for a in (False, True)]
        + [{"fixed": {"n": 3, "loops": False, "steps": 2, "ws": 4, "dup": True}, "timeout": 240}]
        + [{"fixed": {"n": 4, "loops": False, "steps": 1, "ws": 3, "perm": p, "e01": a}, "timeout": 240} for p in (5, 16) for a in (False, True)],
        "thorough": [{"fixed": {"n": 4, "loops": False, "steps": 2, "ws": p % 5, "perm": p}, "timeout": 1500} for p in range(24)]
        + [{"fixed": {"n": 3, "loops": True, "steps": 3, "ws": w}, "timeout": 1500} for w in (1, 7)]
        + [{"fixed": {"n": 4, "loops": True, "steps": 1, "ws": 2, "perm": p, "s0": a}, "timeout": 1500} for p in (8, 21) for a in (False, True)]
        + [{"fixed": {"n": 4, "loops": False, "steps": 2, "ws": 6, "perm": p, "dup": True}, "timeout": 1500} for p in (2, 13, 22)],
        "cover": ["cyclic_rejected", "acyclic_accepted", "shared", "stepped"],
        "bounds": {
            "quick": "3 agents: every sharing graph incl. self-sharing (2^9) x 6 declaration orders, 2 steps; 4 agents: every loop-free graph (2^12), 2 declaration orders, 1 step; base values, stale current_reward and running totals unbounded integers",
            "thorough": "4 agents: every loop-free sharing graph (2^12) x all 24 declaration orders, 2 steps; every graph incl. self-sharing (2^16) x 2 declaration orders, 1 step; 3 agents incl. self-sharing, 3 steps",
        },
    },
    "weighted_sum": {
        "fn": weighted_sum,
        "quick": [{"fixed": {"nmax": 3}, "timeout": 200}],
        "thorough": [{"fixed": {"nmax": 4, "w0": w}, "timeout": 900} for w in range(5)],
        "cover": ["summed", "empty"],
        "bounds": {"quick": "0..3 components, weights from {0,1,-1,0.5,2.5}, unbounded integer values, two consecutive updates", "thorough": "0..4 components"},
    },
    "sticky_step": {
        "fn": sticky_step,
        "quick": [{"fixed": {"comp": c}, "timeout": 200} for c in COMPONENTS],
        "thorough": [{"fixed": {"comp": c}, "timeout": 600} for c in COMPONENTS],
        "cover": ["event", "sticky_keep", "nonsticky_zero", "absent"],
        "bounds": "arbitrary real memory, sticky/non-sticky, 5 request shapes x 4 response statuses, 0..2 codes / history entries with arbitrary integer codes, subject present/absent",
    },
}

_EP_PAIRS = list(range(18))
HARNESSES["episode"] = {
    "fn": episode,
    "quick": [{"fixed": {"steps": 2, "stweb": b, "stdb": c, "perm": 1}, "timeout": 300} for b in (False, True) for c in (False, True)]
    + [{"fixed": {"steps": 2, "stweb": b, "stdb": b, "perm": 5}, "timeout": 300} for b in (False, True)],
    "thorough": [{"fixed": {"steps": 3, "a0": a, "perm": p}, "timeout": 1500} for a in _EP_PAIRS for p in (0, 3, 4)]
    + [{"fixed": {"steps": 2, "perm": p}, "timeout": 1500} for p in (0, 2, 3, 4)],
    "cover": ["episode", "ev_web-server-404-penalty", "ev_webpage-unavailable-penalty", "ev_green-admin-database-unreachable-penalty"],
    "bounds": {
        "quick": "2 steps x 18 action pairs per step x 8 sticky settings for declaration order watch,green,blue (and 4 sticky settings for green,blue,watch) of a 3-agent sharing chain (watch -> blue -> green), real client+server scenario from its initial state, then env.reset()",
        "thorough": "3 steps x 18 action pairs per step x 8 sticky settings x 3 declaration orders; 2 steps x 8 sticky settings for 4 more orders (all 6 orders covered together with quick)",
    },
}
HARNESSES["wsum_fp_smt"] = {
    "fn": wsum_fp_smt,
    "replay_fn": wsum_fp_replay,
    "kind": "smt",
    "quick": [{"fixed": {}, "timeout": 600}],
    "thorough": [{"fixed": {}, "timeout": 1800}],
    "cover": ["fp"],
    "bounds": "n <= 3 components, all finite IEEE doubles as weights and values: result equals the left-to-right fold from 0.0 with one rounding per operation; "
    "zero-weight components contribute nothing (directly for n <= 2; lemmas Z0/Z-absorb/Z-congruence give it for any n by induction); "
    "|weights|,|values| <= 1e150 => result finite (lemma A on one product + lemmas B / B-step on the additions)",
}

"""C09 – observations faithfully encode the simulation's ground truth (Engine S)."""
from __future__ import annotations

import copy
from fractions import Fraction

from vlib.chdriver import all_of, any_of, assume, check, cover, fail, pick, pick_int, rng
from vlib.fixtures import concrete, mini_scenario, quiet

SOURCES = [
    "/repo/src/primaite/game/agent/observations/host_observations.py",
    "/repo/src/primaite/game/agent/observations/software_observation.py",
    "/repo/src/primaite/game/agent/observations/file_system_observations.py",
    "/repo/src/primaite/game/agent/observations/nic_observations.py",
    "/repo/src/primaite/game/agent/observations/acl_observation.py",
    "/repo/src/primaite/game/agent/observations/router_observation.py",
    "/repo/src/primaite/game/agent/observations/link_observation.py",
    "/repo/src/primaite/game/agent/observations/node_observations.py",
    "/repo/src/primaite/game/agent/utils.py",
    "/repo/src/primaite/simulator/network/hardware/base.py",
    "/repo/src/primaite/simulator/system/software.py",
    "/repo/src/primaite/simulator/file_system/folder.py",
    "/repo/src/primaite/simulator/file_system/file.py",
    "/repo/src/primaite/simulator/network/hardware/nodes/network/router.py",
]
ENCODED = [
    "Simulation.describe_state() -> ObservationManager.update() on the real observation tree of a generated scenario",
    "HostObservation / ServiceObservation / ApplicationObservation / FolderObservation / FileObservation / "
    "NICObservation / RouterObservation / PortObservation / ACLObservation / LinkObservation .observe",
    "describe_state of Node, Service, Application, FileSystem, Folder, File, NetworkInterface, Link, AccessControlList, ACLRule",
]
ASSUMPTIONS = [
    "ground truth is written onto the simulator OBJECTS (operating_state, health_state_actual/visible, health_status/"
    "visible_health_status, num_access, num_executions, per-tick counters, interface enabled flag, link load, ACL "
    "slots through the real add_rule), every enum member and unbounded counts as solver values; the expected "
    "observation is computed from the objects by a reference written from the observation classes' docstrings",
    "documented encodings: enum .value for states/health; count bins 0 (<= low), 1 (> low), 2 (> medium), 3 (> high); "
    "interface 1 enabled / 2 disabled; link band 0 if idle else min(floor(9*load/bandwidth)+1, 10); per-tick creation/"
    "deletion counts capped at 3; NMNE = category of the increase since the previous observation; a component that "
    "does not exist and every component of a node that is not ON reads as the zero/default encoding",
    "scan-gated health: with *_requires_scan the last-scanned (visible) value, otherwise the true value",
    "thresholds of the generated scenario; link load from a concrete covering set (float division stays concrete)",
]


def _env(requires_scan: bool, kind: str = "routed", level: str = "nodes", family: int = -1):
    """level 'nodes': the scan options are declared for all nodes; 'host': each host entry declares them itself and the
    nodes level declares the OPPOSITE (the host's own declaration wins)."""
    from primaite.session.environment import PrimaiteGymEnv

    quiet()
    cfg = mini_scenario(kind, with_green=False, with_red=False)
    cfg["simulation"]["network"]["nmne_config"] = {"capture_nmne": True, "nmne_capture_keywords": ["DELETE"]}
    opts = cfg["agents"][-1]["observation_space"]["options"]["components"][0]["options"]
    for key in ("services_requires_scan", "applications_requires_scan", "file_system_requires_scan"):
        if level == "mixed":
            # the three families are configured DIFFERENTLY: the family under test gets `requires_scan`, the others the opposite
            mine = {0: "services_requires_scan", 3: "applications_requires_scan", 1: "file_system_requires_scan", 4: "file_system_requires_scan"}.get(family)
            opts[key] = requires_scan if key == mine else (not requires_scan)
            continue
        if level == "host":
            opts[key] = not requires_scan
            for h in opts["hosts"]:
                h[key] = requires_scan
        else:
            opts[key] = requires_scan
    env = PrimaiteGymEnv(env_config=copy.deepcopy(cfg))
    env.reset()
    return env, cfg


def _bin(n, low, med, high):
    if n > high:
        return 3
    if n > med:
        return 2
    if n > low:
        return 1
    return 0


def host_faithful(
    scan: bool, ns: int,
    so: int, sa: int, sv: int,
    ao: int, aa: int, av: int, nexec: int,
    fa: int, fv: int, da: int, dv: int, nacc: int,
    ncre: int, ndel: int, nic_en: bool, grp: int,
    level: str = "nodes",
):
    """Host leaves vs ground truth set on the objects. grp selects which family is symbolic (others keep their
    concrete scenario values): 0 service, 3 application, 1 file, 4 folder, 2 power/nic/counters."""
    from primaite.simulator.file_system.file_system_item_abc import FileSystemItemHealthStatus as FH
    from primaite.simulator.network.hardware.node_operating_state import NodeOperatingState as NS
    from primaite.simulator.system.applications.application import ApplicationOperatingState as AO
    from primaite.simulator.system.services.service import ServiceOperatingState as SO
    from primaite.simulator.system.software import SoftwareHealthState as SH

    with concrete():
        env, cfg = _env(scan, level=level, family=grp if isinstance(grp, int) else -1)
        game = env.game
        sim = game.simulation
        node = sim.network.get_node_by_hostname("client_1")
        om = env.agent.observation_manager
        svc = node.software_manager.software["dns-client"]
        app = node.software_manager.software["web-browser"]
        folder = node.file_system.get_folder("docs")
        f = folder.get_file("a.txt")
        th = cfg["game"]["thresholds"]
    assume(all_of(rng(grp, 0, 4), nexec >= 0, nacc >= 0, ncre >= 0, ndel >= 0))
    g = pick_int(grp, 0, 4)
    zero = lambda *xs: all_of(*[rng(x, 0, 0) for x in xs])
    if g == 0:  # service
        svc.operating_state = pick(list(SO), so)
        svc.health_state_actual = pick(list(SH), sa)
        svc.health_state_visible = pick(list(SH), sv)
        assume(zero(ns, fa, fv, da, dv, ao, aa, av))
    elif g == 3:  # application
        app.operating_state = pick(list(AO), ao)
        app.health_state_actual = pick(list(SH), aa)
        app.health_state_visible = pick(list(SH), av)
        app.num_executions = nexec
        assume(zero(ns, fa, fv, da, dv, so, sa, sv))
    elif g == 1:  # file
        f.health_status = pick(list(FH), fa)
        f.visible_health_status = pick(list(FH), fv)
        f.num_access = nacc
        assume(zero(ns, so, sa, sv, ao, aa, av, da, dv))
    elif g == 4:  # folder
        folder.health_status = pick(list(FH), da)
        folder.visible_health_status = pick(list(FH), dv)
        folder._scanned_this_step = True  # the visible value changes only when a scan completes (this step)
        assume(zero(ns, so, sa, sv, ao, aa, av, fa, fv))
    else:
        node.operating_state = pick(list(NS), ns)
        node.file_system.num_file_creations = ncre
        node.file_system.num_file_deletions = ndel
        node.network_interface[1].enabled = nic_en
        assume(zero(so, sa, sv, ao, aa, av, fa, fv, da, dv))
    try:
        state = sim.describe_state()
        obs = om.update(state)
    except Exception as e:
        fail(f"describe_state/update raised {type(e).__name__}: {str(e)[:200]}")
    h = obs["NODES"]["HOST0"]
    on = node.operating_state == NS.ON
    check(h["operating_status"] == node.operating_state.value, "host operating_status differs from the node's power state")
    s1 = h["SERVICES"][1]
    a1 = h["APPLICATIONS"][1]
    fo = h["FOLDERS"][1]
    fi = fo["FILES"][1]
    n1 = h["NICS"][1]
    if not on:
        cover("node_not_on")
        check(s1 == {"operating_status": 0, "health_status": 0}, "service of a non-ON node does not read as default")
        check(a1 == {"operating_status": 0, "health_status": 0, "num_executions": 0}, "application of a non-ON node does not read as default")
        check(fo["health_status"] == 0 and fi["health_status"] == 0 and fi["num_access"] == 0, "file system of a non-ON node does not read as default")
        check(n1["nic_status"] == 0, "interface of a non-ON node does not read as default")
        check(h["num_file_creations"] == 0 and h["num_file_deletions"] == 0, "counters of a non-ON node do not read as default")
    else:
        cover("node_on")
        check(s1["operating_status"] == svc.operating_state.value, "service operating_status differs from the service's state")
        scan_svc = scan if (level != "mixed" or grp == 0) else (not scan)
        scan_app = scan if (level != "mixed" or grp == 3) else (not scan)
        scan_fs = scan if (level != "mixed" or grp in (1, 4)) else (not scan)
        check(s1["health_status"] == (svc.health_state_visible if scan_svc else svc.health_state_actual).value, lambda: f"service health_status is not the {'visible' if scan_svc else 'true'} health")
        check(a1["operating_status"] == app.operating_state.value, "application operating_status differs")
        check(a1["health_status"] == (app.health_state_visible if scan_app else app.health_state_actual).value, lambda: f"application health_status is not the {'visible' if scan_app else 'true'} health")
        te = th["app_executions"]
        check(a1["num_executions"] == _bin(app.num_executions, te["low"], te["medium"], te["high"]), "application num_executions bin differs from the documented binning")
        check(fi["health_status"] == (f.visible_health_status if scan_fs else f.health_status).value, lambda: f"file health_status is not the {'visible' if scan_fs else 'true'} health")
        tf = th["file_access"]
        check(fi["num_access"] == _bin(f.num_access, tf["low"], tf["medium"], tf["high"]), "file num_access bin differs from the documented binning")
        check(fo["health_status"] == (folder.visible_health_status if scan_fs else folder.health_status).value, lambda: f"folder health_status is not the {'visible' if scan_fs else 'true'} health")
        check(n1["nic_status"] == (1 if node.network_interface[1].enabled else 2), "nic_status differs from the interface's enabled flag")
        nc, nd = node.file_system.num_file_creations, node.file_system.num_file_deletions
        check(h["num_file_creations"] == (nc if nc < 3 else 3), "num_file_creations differs from the capped per-tick count")
        check(h["num_file_deletions"] == (nd if nd < 3 else 3), "num_file_deletions differs from the capped per-tick count")
    # slot assignment: second service/… slots are padding (nothing configured) -> default; HOST1 is server_1
    check(h["SERVICES"][2] == {"operating_status": 0, "health_status": 0}, "padding service slot is not default")
    srv = sim.network.get_node_by_hostname("server_1")
    h1 = obs["NODES"]["HOST1"]
    check(h1["operating_status"] == srv.operating_state.value, "HOST1 does not track server_1")
    check(h1["SERVICES"][1]["operating_status"] == srv.software_manager.software["web-server"].operating_state.value, "HOST1 service slot 1 is not web-server")
    check(h1["SERVICES"][2]["operating_status"] == srv.software_manager.software["database-service"].operating_state.value, "HOST1 service slot 2 is not database-service")
    check(obs["NODES"]["HOST2"]["operating_status"] == sim.network.get_node_by_hostname("client_2").operating_state.value, "HOST2 does not track client_2")


LOADS = [0, 1, 11, 12, 22, 23, 50, 99, 100]


def net_faithful(li: int, rule_present: bool, permit: bool, ipi: int, pti: int, pri: int, slot: int, router_on: bool, port_en: bool, n_in1: int, n_in2: int, swi: int, dwi: int, part: str = "acl"):
    """Router ACL slots + router ports (part 'acl'), link load band (part 'link'), NMNE last-step memory (part 'nmne')."""
    from primaite.simulator.network.hardware.node_operating_state import NodeOperatingState as NS
    from primaite.simulator.network.hardware.nodes.network.router import ACLAction

    with concrete():
        env, cfg = _env(False)
        sim = env.game.simulation
        om = env.agent.observation_manager
        router = sim.network.get_node_by_hostname("router_1")
        node = sim.network.get_node_by_hostname("client_1")
        link_refs = cfg["agents"][-1]["observation_space"]["options"]["components"][1]["options"]["link_references"]
    ips = [None, "192.168.1.2", "192.168.1.3"]
    ports = [None, 80, 53]
    protos = [None, "icmp", "tcp", "udp"]
    assume(all_of(rng(li, 0, len(LOADS) - 1), rng(ipi, 0, 2), rng(pti, 0, 2), rng(pri, 0, 3), rng(slot, 0, 3), n_in1 >= 0, n_in2 >= n_in1))
    assume(all_of(rng(swi, 0, 2), rng(dwi, 0, 2)))
    if part != "acl":
        assume(all_of(ipi == 0, pti == 0, pri == 0, slot == 0, permit, port_en, swi == 0, dwi == 0))
    elif not rule_present or not router_on:
        # the rule's fields cannot matter (no rule / router not ON reads as default): one representative rule
        assume(all_of(ipi == 1, pti == 1, pri == 1, swi == 1, dwi == 2, permit))
    if part != "link":
        assume(li == 0)
    if part != "nmne":
        assume(all_of(n_in1 == 0, n_in2 == 0))
    load = pick(LOADS, li)
    sl = pick_int(slot, 0, 3)
    ip, pt, pr = pick(ips, ipi), pick(ports, pti), pick(protos, pri)
    wcs = [None, "0.0.0.1", "0.0.0.255"]
    sw, dw = pick(wcs, swi), pick(wcs, dwi)
    with concrete():
        for i in range(len(router.acl._acl)):
            router.acl._acl[i] = None
        if rule_present:
            router.acl.add_rule(action=ACLAction.PERMIT if permit else ACLAction.DENY, protocol=pr, src_ip_address=ip, dst_ip_address=None, src_wildcard_mask=sw, dst_wildcard_mask=dw, src_port=pt, dst_port=pt, position=sl)
        # link 0 of the observation: router_1:eth-1<->switch_1:eth-4
        link = None
        for l in sim.network.links.values():
            names = {l.endpoint_a.parent.config.hostname, l.endpoint_b.parent.config.hostname}
            if names == {"router_1", "switch_1"}:
                link = l
        link.current_load = float(load)
        if not port_en:
            router.network_interface[2].disable()
        if not router_on:
            router.config.shut_down_duration = 0
            router.power_off()
    nic = node.network_interface[1]
    nic.nmne = {"direction": {"inbound": {"keywords": {"*": n_in1}}}}
    try:
        obs1 = copy.deepcopy(om.update(sim.describe_state())) if False else om.update(sim.describe_state())
        nm1 = obs1["NODES"]["HOST0"]["NICS"][1]["NMNE"]["inbound"]
        nic.nmne = {"direction": {"inbound": {"keywords": {"*": n_in2}}}}
        obs = om.update(sim.describe_state())
    except Exception as e:
        fail(f"describe_state/update raised {type(e).__name__}: {str(e)[:200]}")
    tn = cfg["game"]["thresholds"]["nmne"]
    check(nm1 == _bin(n_in1, tn["low"], tn["medium"], tn["high"]), "first NMNE observation is not the category of the count so far")
    check(obs["NODES"]["HOST0"]["NICS"][1]["NMNE"]["inbound"] == _bin(n_in2 - n_in1, tn["low"], tn["medium"], tn["high"]), "NMNE observation is not the category of the increase since the previous step")
    r = obs["NODES"]["ROUTER0"]
    if not router_on:
        cover("router_off")
        for i in range(4):
            check(r["ACL"][i]["permission"] == 0 and r["ACL"][i]["source_ip_id"] == 0, "ACL of a router that is not ON does not read as default")
        check(r["PORTS"][1]["operating_status"] == 0, "port of a router that is not ON does not read as default")
    else:
        cover("router_on")
        for i in range(4):
            e = r["ACL"][i]
            check(e["position"] == i, "ACL position field differs from the slot")
            if rule_present and i == sl:
                check(e["permission"] == (1 if permit else 2), "ACL permission differs from the rule's action")
                check(e["source_ip_id"] == (1 if ip is None else 2 + ["192.168.1.2", "192.168.1.3"].index(ip)), "ACL source_ip_id differs")
                check(e["dest_ip_id"] == 1, "ACL dest_ip_id of an any-destination rule is not 1")
                check(e["source_wildcard_id"] == (1 if sw is None else 2 + wcs[1:].index(sw)), "ACL source_wildcard_id differs from the rule's source wildcard mask")
                check(e["dest_wildcard_id"] == (1 if dw is None else 2 + wcs[1:].index(dw)), "ACL dest_wildcard_id differs from the rule's destination wildcard mask")
                check(e["source_port_id"] == (1 if pt is None else 2 + [80, 53].index(pt)), "ACL source_port_id differs")
                check(e["dest_port_id"] == e["source_port_id"], "ACL dest_port_id differs")
                check(e["protocol_id"] == (1 if pr is None else 2 + ["icmp", "tcp", "udp"].index(pr)), "ACL protocol_id differs")
            else:
                check(e["permission"] == 0 and e["source_ip_id"] == 0 and e["protocol_id"] == 0, lambda: f"empty ACL slot {i} does not read as default (rule at {sl if rule_present else None})")
        check(r["PORTS"][1]["operating_status"] == (1 if router.network_interface[1].enabled else 2), "router port 1 status differs")
        check(r["PORTS"][2]["operating_status"] == (1 if router.network_interface[2].enabled else 2), "router port 2 status differs")
    # link band (link is down -> load reset to 0 by the simulator when an endpoint goes down)
    real_load = link.current_load
    want = 0 if real_load == 0 else min(int(Fraction(int(real_load)) * 9 / Fraction(int(link.bandwidth))) + 1, 10)
    idx = 1 + [x for x in link_refs].index("router_1:eth-1<->switch_1:eth-4")
    check(obs["LINKS"][idx]["PROTOCOLS"]["ALL"] == want, lambda: f"link band {obs['LINKS'][idx]['PROTOCOLS']['ALL']} differs from documented band {want} for load {real_load}")


FW_LISTS = [("INTERNAL", "INBOUND", "internal_inbound_acl"), ("INTERNAL", "OUTBOUND", "internal_outbound_acl"), ("DMZ", "INBOUND", "dmz_inbound_acl"),
            ("DMZ", "OUTBOUND", "dmz_outbound_acl"), ("EXTERNAL", "INBOUND", "external_inbound_acl"), ("EXTERNAL", "OUTBOUND", "external_outbound_acl")]


def fw_faithful(li: int, slot: int, permit: bool, ipi: int, pti: int, pri: int, swi: int, fw_on: bool, p1: bool, p2: bool, p3: bool, couple: bool = False):
    """Firewall leaves on a generated firewall-with-DMZ scenario: one rule is added through the real API to a
    solver-chosen list of the six at a solver-chosen observed slot; every slot of every list and the three port
    statuses are compared with the documented encoding of what the firewall really holds; a firewall that is not ON
    reads as default."""
    from primaite.simulator.network.hardware.nodes.network.router import ACLAction

    ips = [None, "192.168.1.2", "192.168.1.3"]
    ports = [None, 80, 53]
    protos = [None, "icmp", "tcp", "udp"]
    wcs = [None, "0.0.0.1", "0.0.0.255"]
    assume(all_of(rng(li, 0, 5), rng(slot, 0, 3), rng(ipi, 0, 2), rng(pti, 0, 2), rng(pri, 0, 3), rng(swi, 0, 2)))
    if not fw_on:
        assume(all_of(ipi == 1, pti == 1, pri == 1, swi == 1, permit, li == 0, slot == 0, p1, p2, p3))
    if couple:  # quick tier: address, wildcard and port share one index (every value of every field is still visited)
        assume(all_of(pti == ipi, swi == ipi))
    zone, direction, attr = pick(FW_LISTS, li)
    sl = pick_int(slot, 0, 3)
    ip, pt, pr, sw = pick(ips, ipi), pick(ports, pti), pick(protos, pri), pick(wcs, swi)
    with concrete():
        env, cfg = _env(False, "firewalled")
        sim = env.game.simulation
        om = env.agent.observation_manager
        fw = sim.network.get_node_by_hostname("firewall_1")
        getattr(fw, attr).add_rule(action=ACLAction.PERMIT if permit else ACLAction.DENY, protocol=pr, src_ip_address=ip, src_wildcard_mask=sw, src_port=pt, dst_port=pt, position=sl)
        for flag, port in ((p1, fw.external_port), (p2, fw.internal_port), (p3, fw.dmz_port)):
            if not flag:
                port.disable()
        if not fw_on:
            fw.config.shut_down_duration = 0
            fw.power_off()
    try:
        obs = om.update(sim.describe_state())
    except Exception as e:
        fail(f"describe_state/update raised {type(e).__name__}: {str(e)[:200]}")
    f = obs["NODES"]["FIREWALL0"]
    if not fw_on:
        cover("fw_off")
        for z, d, _a in FW_LISTS:
            for i in range(4):
                e = f["ACL"][z][d][i]
                check(e["permission"] == 0 and e["source_ip_id"] == 0 and e["protocol_id"] == 0, lambda: f"ACL {z}/{d} slot {i} of a firewall that is not ON does not read as default")
        for k in (1, 2, 3):
            check(f["PORTS"][k]["operating_status"] == 0, "port of a firewall that is not ON does not read as default")
        return
    cover("fw_on")
    for z, d, a in FW_LISTS:
        for i in range(4):
            e = f["ACL"][z][d][i]
            check(e["position"] == i, "ACL position field differs from the slot")
            if a == attr and i == sl:
                check(e["permission"] == (1 if permit else 2), lambda: f"{z}/{d} slot {i}: permission differs from the rule's action")
                check(e["source_ip_id"] == (1 if ip is None else 2 + ["192.168.1.2", "192.168.1.3"].index(ip)), lambda: f"{z}/{d} slot {i}: source_ip_id differs")
                check(e["dest_ip_id"] == 1, lambda: f"{z}/{d} slot {i}: dest_ip_id of an any-destination rule is not 1")
                check(e["source_wildcard_id"] == (1 if sw is None else 2 + wcs[1:].index(sw)), lambda: f"{z}/{d} slot {i}: source_wildcard_id differs")
                check(e["source_port_id"] == (1 if pt is None else 2 + [80, 53].index(pt)), lambda: f"{z}/{d} slot {i}: source_port_id differs")
                check(e["dest_port_id"] == e["source_port_id"], lambda: f"{z}/{d} slot {i}: dest_port_id differs")
                check(e["protocol_id"] == (1 if pr is None else 2 + ["icmp", "tcp", "udp"].index(pr)), lambda: f"{z}/{d} slot {i}: protocol_id differs")
            else:
                check(e["permission"] == 0 and e["source_ip_id"] == 0 and e["protocol_id"] == 0, lambda: f"empty slot {i} of {z}/{d} does not read as default (the rule is in {attr} slot {sl})")
    for k, port in ((1, fw.external_port), (2, fw.internal_port), (3, fw.dmz_port)):
        check(f["PORTS"][k]["operating_status"] == (1 if port.enabled else 2), lambda: f"firewall port {k} status differs from the interface")


TRAFFIC_LEVELS = [None, 0.0, 0.5, 40.0, 100.0]  # Mbit carried this step (None: the port has not been seen at all)


def _band(x, speed=100.0):
    # documented categorisation (NICObservation docstring): 0 no traffic, 1..10 the tenth of the interface speed in use
    if not x:
        return 0
    return min(int(x / speed * 9) + 1, 10)


def traffic_faithful(d_in: int, d_out: int, h_in: int, h_out: int, ic: int, nic_en: bool):
    """The monitored-traffic leaves of a host interface: the amounts carried this step per monitored protocol / port are
    written on the real interface as solver choices (every listed port independently: not seen, zero, a little, a lot,
    the full speed) and every TRAFFIC leaf is compared with the band of the amount of exactly that port and direction."""
    assume(all_of(rng(d_in, 0, 4), rng(d_out, 1, 4), rng(h_in, 0, 4), rng(h_out, 1, 4), rng(ic, 0, 4)))
    # outbound level tied to the inbound one of the other port (every level of every leaf is still visited)
    assume(all_of(any_of(d_out == h_in, all_of(h_in == 0, d_out == 1)), any_of(h_out == d_in, all_of(d_in == 0, h_out == 1))))
    with concrete():
        env, cfg = _env(False, "switched")
        sim = env.game.simulation
        om = env.agent.observation_manager
        node = sim.network.get_node_by_hostname("client_1")
        nic = node.network_interface[1]
    t = {}
    lv = TRAFFIC_LEVELS
    di, do, hi, ho, icv = pick(lv, d_in), pick(lv, d_out), pick(lv, h_in), pick(lv, h_out), pick(lv, ic)
    tcp = {}
    if di is not None:
        tcp[53] = {"inbound": di, "outbound": do}
    if hi is not None:
        tcp[80] = {"inbound": hi, "outbound": ho}
    if tcp:
        t["tcp"] = tcp
    if icv is not None:
        t["icmp"] = {"inbound": icv, "outbound": icv / 2}
    nic.traffic = t
    nic.enabled = nic_en
    try:
        obs = om.update(sim.describe_state())
    except Exception as e:
        fail(f"describe_state/update raised {type(e).__name__}: {str(e)[:200]}")
    tr = obs["NODES"]["HOST0"]["NICS"][1]["TRAFFIC"]
    cover("traffic")
    want = {
        ("tcp", 53): (_band(di), _band(do) if di is not None else 0),
        ("tcp", 80): (_band(hi), _band(ho) if hi is not None else 0),
    }
    for (proto, port), (w_in, w_out) in want.items():
        got = tr[proto][port]
        check(got["inbound"] == w_in and got["outbound"] == w_out, lambda: f"TRAFFIC {proto}/{port} reads in={got['inbound']} out={got['outbound']}, the interface carried in={w_in} out={w_out} (bands) on that port [dns={di},{do} http={hi},{ho}]")
    gi = tr["icmp"]
    check(gi["inbound"] == _band(icv) and gi["outbound"] == _band(None if icv is None else icv / 2), lambda: f"TRAFFIC icmp reads {gi}, the interface carried {icv}")


def users_faithful(local: bool, nrem: int, ns: int, limit: int):
    """The users leaves of a host: local_login is 1 exactly when a user is logged in locally, remote_sessions is the
    number of open remote sessions (capped at the observation's maximum); sessions are opened through the real
    terminal / session-manager API from another host; a host that is not ON reads as default."""
    from ipaddress import IPv4Address

    from harness.c05_requests import NODE_STATES, _set_node_state

    assume(all_of(rng(nrem, 0, 5), rng(ns, 0, 2), rng(limit, 3, 5)))
    n = pick_int(nrem, 0, 5)
    lim = pick_int(limit, 3, 5)
    st = pick(NODE_STATES, ns)
    local = True if local else False
    with concrete():
        env, cfg = _env(False, "switched")
        sim = env.game.simulation
        om = env.agent.observation_manager
        node = sim.network.get_node_by_hostname("client_1")
        peer = sim.network.get_node_by_hostname("client_2")
        usm = node.user_session_manager
        usm.max_remote_sessions = lim
        opened = 0
        for _ in range(n):
            c = peer.terminal.login(username="admin", password="admin", ip_address=IPv4Address("192.168.1.2"))
            if c is not None:
                opened += 1
        if local:
            usm.local_login("admin", "admin")
        real_remote = len(usm.remote_sessions)
        if real_remote != min(n, lim):
            fail(f"harness: {n} remote logins with limit {lim} opened {real_remote} sessions")
        _set_node_state(node, st)
        real_remote = len(usm.remote_sessions)
        real_local = usm.local_session is not None
    try:
        obs = om.update(sim.describe_state())
    except Exception as e:
        fail(f"describe_state/update raised {type(e).__name__}: {str(e)[:200]}")
    u = obs["NODES"]["HOST0"]["users"]
    if st != "ON":
        cover("users_not_on")
        check(u["local_login"] == 0 and u["remote_sessions"] == 0, lambda: f"users leaves of a host that is {st} do not read as default: {u}")
        return
    cover("users_on")
    check(u["local_login"] == (1 if real_local else 0), lambda: f"local_login reads {u['local_login']}, a local session is {'open' if real_local else 'not open'}")
    check(u["remote_sessions"] == min(real_remote, 3), lambda: f"remote_sessions reads {u['remote_sessions']}, {real_remote} remote sessions are open (observation maximum 3)")


def off_memory(ns: int, n_in: int, n_out: int, svc: int, fh: int, acc: int, execs: int, traffic: bool, kind: str = "routed"):
    """History independence of the 'not ON' reading: a host is observed while ON with solver-chosen non-default
    quantities (NMNE counts, service state, file health, access / execution counts), then goes down and is observed
    again: its part of the observation is exactly what a host that is not ON reads as in a run without that history,
    and after it is back ON the reading is again that of the state."""
    from primaite.simulator.file_system.file_system_item_abc import FileSystemItemHealthStatus as FH
    from primaite.simulator.system.services.service import ServiceOperatingState as SS
    from harness.c05_requests import NODE_STATES, _set_node_state

    assume(all_of(rng(ns, 1, 3), n_in >= 0, n_out >= 0, rng(svc, 0, len(list(SS)) - 1), rng(fh, 0, len(list(FH)) - 1), acc >= 0, execs >= 0))
    # coupled choices (every member / every count band of every quantity is still visited, without the full product)
    assume(all_of(n_out == n_in, execs == acc, any_of(fh == svc, fh == svc - len(list(FH)))))
    st = pick(NODE_STATES, ns)
    with concrete():
        env, cfg = _env(False, kind)
        sim = env.game.simulation
        om = env.agent.observation_manager
        node = sim.network.get_node_by_hostname("client_1")
        ref_env, _ = _env(False, kind)
        ref_node = ref_env.game.simulation.network.get_node_by_hostname("client_1")
    # step 1: ON, with quantities the solver chooses (and, optionally, real monitored traffic on the interface)
    if traffic:
        with concrete():
            node.ping("192.168.1.3", pings=2)
            node.software_manager.software["dns-client"].check_domain_exists("arcd.com")
        cover("with_traffic")
    nic = node.network_interface[1]
    nic.nmne = {"direction": {"inbound": {"keywords": {"*": n_in}}, "outbound": {"keywords": {"*": n_out}}}}
    node.software_manager.software["dns-client"].operating_state = pick(list(SS), svc)
    f = node.file_system.get_file(folder_name="docs", file_name="a.txt")
    f.health_status = pick(list(FH), fh)
    f.visible_health_status = f.health_status
    f.num_access = acc
    node.software_manager.software["web-browser"].num_executions = execs
    try:
        o1 = om.update(sim.describe_state())
        with concrete():
            o1 = copy.deepcopy(o1)
            # step 2: the host goes down (real power API); reference: the same host going down with no history
            _set_node_state(node, st)
            _set_node_state(ref_node, st)
        o2 = om.update(sim.describe_state())
        ref = ref_env.agent.observation_manager.update(ref_env.game.simulation.describe_state())
    except Exception as e:
        fail(f"describe_state/update raised {type(e).__name__}: {str(e)[:200]}")
    cover("went_down")
    h2, hr = o2["NODES"]["HOST0"], ref["NODES"]["HOST0"]
    if h2 != hr:
        with concrete():
            from harness.c06_blocking import _first_diff

            d = _first_diff(h2, hr, "HOST0")
        fail(f"a host that is {st} reads differently after having been observed ON with non-default values than without that history: {d} (history vs none)")


def folder_memory(dv1: int, dv2: int, scanned1: bool, scanned2: bool):
    """Scan-gated folder health over two consecutive observations: always the last-scanned (visible) value."""
    from primaite.simulator.file_system.file_system_item_abc import FileSystemItemHealthStatus as FH

    with concrete():
        env, cfg = _env(True)
        sim = env.game.simulation
        node = sim.network.get_node_by_hostname("client_1")
        om = env.agent.observation_manager
        folder = node.file_system.get_folder("docs")
    # step 1: a scan may complete (visible := dv1); step 2: another may complete (visible := dv2)
    v1 = pick(list(FH), dv1)
    v2 = pick(list(FH), dv2)
    visible = folder.visible_health_status
    if scanned1:
        folder.visible_health_status = v1
        visible = v1
    folder._scanned_this_step = scanned1
    o1 = om.update(sim.describe_state())["NODES"]["HOST0"]["FOLDERS"][1]["health_status"]
    check(o1 == visible.value, "folder health (scan required) is not the last-scanned value in the step a scan completes / before any scan")
    if scanned2:
        folder.visible_health_status = v2
        visible = v2
    folder._scanned_this_step = scanned2
    o2 = om.update(sim.describe_state())["NODES"]["HOST0"]["FOLDERS"][1]["health_status"]
    cover("two_steps")
    check(o2 == visible.value, lambda: f"folder health (scan required) reads {o2} in the step after a scan, last-scanned value is {visible.value}")


HARNESSES = {
    "host_faithful": {
        "fn": host_faithful,
        "quick": [{"fixed": {"grp": g, "scan": s}, "timeout": 280} for g in range(5) for s in (False, True)]
        # the scan options declared per host, the nodes level declaring the opposite
        + [{"fixed": {"grp": g, "scan": s, "level": "host"}, "timeout": 280} for g, s in ((0, False), (3, True), (1, False), (4, True))]
        # the three scan options set differently from each other (the family under test against the other two)
        + [{"fixed": {"grp": g, "scan": s, "level": "mixed"}, "timeout": 280} for g, s in ((0, True), (3, True), (3, False), (1, True))],
        "thorough": [{"fixed": {"grp": g, "scan": s, "level": lv}, "timeout": 1500} for g in range(5) for s in (False, True) for lv in ("nodes", "host")],
        "cover": ["node_on", "node_not_on"],
        "bounds": "per family every member of the real enums for operating state and for actual and visible health independently, unbounded counts; scan-gated and true-health configurations, declared for all nodes or per host (with the opposite declared at the nodes level)",
    },
    "net_faithful": {
        "fn": net_faithful,
        "quick": [{"fixed": {"router_on": True, "rule_present": True, "part": "acl", "permit": p, "slot": sl}, "timeout": 280} for p in (True, False) for sl in (0, 3)]
        + [{"fixed": {"router_on": ro, "rule_present": rp, "part": pt}, "timeout": 200} for (ro, rp, pt) in ((True, False, "acl"), (False, True, "acl"), (True, True, "link"), (True, False, "nmne"))],
        "thorough": [{"fixed": {"router_on": ro, "rule_present": rp, "part": pt}, "timeout": 1200} for ro in (True, False) for rp in (True, False) for pt in ("acl", "link", "nmne") if not (ro and rp and pt == "acl")]
        + [{"fixed": {"router_on": True, "rule_present": True, "part": "acl", "slot": sl, "permit": p}, "timeout": 1200} for sl in range(4) for p in (True, False)],
        "cover": ["router_on", "router_off"],
        "bounds": "one ACL rule at any of the 4 observed slots with listed/None address, port, protocol and both actions; 9 link loads; NMNE counts unbounded over two steps; router port enabled/disabled; router ON/OFF",
    },
    "fw_faithful": {
        "fn": fw_faithful,
        "quick": [{"fixed": {"fw_on": True, "li": l, "p2": True, "p3": True, "couple": True}, "timeout": 280} for l in range(6)] + [{"fixed": {"fw_on": False}, "timeout": 120}],
        "thorough": [{"fixed": {"fw_on": True, "li": l, "slot": sl, "p2": True, "p3": True}, "timeout": 1200} for l in range(6) for sl in range(4)]
        + [{"fixed": {"fw_on": True, "li": 0, "slot": 0, "couple": True}, "timeout": 600}, {"fixed": {"fw_on": False}, "timeout": 120}],
        "cover": ["fw_on", "fw_off"],
        "bounds": "generated firewall-with-DMZ scenario; one rule in any of the six lists at any of the 4 observed slots with listed/None address, wildcard, port, protocol and both actions; the three ports enabled/disabled; firewall ON/OFF",
    },
    "traffic_faithful": {
        "fn": traffic_faithful,
        "quick": [{"fixed": {}, "timeout": 280}],
        "thorough": [{"fixed": {}, "timeout": 600}],
        "cover": ["traffic"],
        "bounds": "two monitored TCP ports and ICMP on one host interface, each independently not seen / 0 / 0.5 / 40 / 100 Mbit in and out (speed 100), interface enabled or not",
    },
    "users_faithful": {
        "fn": users_faithful,
        "quick": [{"fixed": {}, "timeout": 280}],
        "thorough": [{"fixed": {}, "timeout": 600}],
        "cover": ["users_on", "users_not_on"],
        "bounds": "0-5 remote logins from another host through the real terminal with a session limit of 3-5 (so the observation's cap of 3 is exceeded), local login or not, host ON / SHUTTING_DOWN / OFF",
    },
    "off_memory": {
        "fn": off_memory,
        "quick": [{"fixed": {"ns": n}, "timeout": 200} for n in (1, 2)],
        "thorough": [{"fixed": {"ns": n, "kind": k}, "timeout": 600} for n in (1, 2, 3) for k in ("routed", "switched")],
        "cover": ["went_down", "with_traffic"],
        "bounds": "two consecutive observations of one host: ON with unbounded NMNE / access / execution counts, every service state and file health, with or without real monitored traffic (ICMP, DNS) on its interface, then SHUTTING_DOWN / OFF / BOOTING; compared with the same host going down without that history",
    },
    "folder_memory": {
        "fn": folder_memory,
        "quick": [{"fixed": {}, "timeout": 200}],
        "thorough": [{"fixed": {}, "timeout": 400}],
        "cover": ["two_steps"],
        "bounds": "two consecutive observations, a scan completing in either/both/neither, every member of the health enum",
    },
}

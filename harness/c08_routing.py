"""C08 – packets reach exactly their addressee via best routes, and forwarding ends."""
from __future__ import annotations

import copy

from vlib.chdriver import all_of, any_of, assume, check, cover, fail, pick, pick_int, rng
from vlib.fixtures import CallLog, concrete, mk_host, mk_node, new_sim, quiet

SOURCES = [
    "/repo/src/primaite/simulator/network/hardware/nodes/network/router.py",
    "/repo/src/primaite/simulator/network/hardware/nodes/network/switch.py",
    "/repo/src/primaite/simulator/network/hardware/nodes/host/host_node.py",
    "/repo/src/primaite/simulator/system/core/session_manager.py",
    "/repo/src/primaite/simulator/system/services/arp/arp.py",
    "/repo/src/primaite/simulator/system/services/icmp/icmp.py",
    "/repo/src/primaite/simulator/network/transmission/data_link_layer.py",
]
ENCODED = [
    "RouteTable.find_best_route translated from source to z3 (BV32 addresses/masks, FP64 metrics) - Engine T",
    "NIC.receive_frame, RouterInterface.receive_frame, SwitchPort.receive_frame, Switch.receive_frame, "
    "Router.receive_frame/process_frame/route_frame, HostNode.receive_frame, SessionManager.receive_frame / "
    "resolve_outbound_transmission_details / receive_payload_from_software_manager, ARP, ICMP.ping (Engine S, real "
    "objects on generated topologies)",
]
ASSUMPTIONS = [
    "T1: ipaddress model - IPv4Address = BV32; IPv4Network(f'{a}/{m}', strict=False) = (a & m, m) for CONTIGUOUS masks m "
    "(the only ones the stdlib accepts), prefixlen = popcount(m), membership = (ip & m) == network; metrics finite and "
    ">= 0; route tables of N <= 3 (quick) / 4 (thorough) static routes + optional default route; the model is "
    "validated against the real RouteTable on a grid and on every solver witness",
    "LPM oracle: among routes containing the destination the longest prefix wins, then the lowest metric, then the "
    "first declared; the default route only if no route contains the destination",
    "S: topologies are generated (host-router-host; host-router-router-host with static and default routes); the TTL "
    "of the outgoing echo request is a solver integer, toggles (interface disabled / node off / ACL deny) and the "
    "host pair are solver choices; identifiers opaque; logging stubbed",
]


# ------------------------------------------------------------------------------------------------ T1
def _mk_mask(z3, p):
    """contiguous mask of prefix length p (BV32 value 0..32)."""
    return z3.If(p == 0, z3.BitVecVal(0, 32), z3.BitVecVal(0xFFFFFFFF, 32) << (z3.BitVecVal(32, 32) - p))


def route_lpm_smt(n: int = 3):
    import random
    from ipaddress import IPv4Address

    import z3

    from primaite.simulator.network.hardware.nodes.network.router import RouteEntry, RouteTable
    from primaite.simulator.system.core.sys_log import SysLog
    from vlib.py2smt import FP64, NONE, Obligations, Rec, Translator

    quiet()
    tr = Translator()
    dst = z3.BitVec("dst", 32)
    addrs = [z3.BitVec(f"addr{i}", 32) for i in range(n)]
    plens = [z3.BitVec(f"plen{i}", 32) for i in range(n)]
    mets = [z3.FP(f"metric{i}", FP64) for i in range(n)]
    hops = [z3.BitVec(f"hop{i}", 32) for i in range(n)]
    has_default = z3.Bool("has_default")
    masks = [_mk_mask(z3, p) for p in plens]
    routes = [Rec({"address": addrs[i], "subnet_mask": masks[i], "metric": mets[i], "next_hop_ip_address": hops[i], "idx": z3.IntVal(i)}, tag="route") for i in range(n)]
    default = Rec({"address": z3.BitVecVal(0, 32), "subnet_mask": z3.BitVecVal(0, 32), "metric": z3.FPVal(0.0, FP64), "next_hop_ip_address": z3.BitVec("dhop", 32), "idx": z3.IntVal(-1)}, present=has_default, tag="route")
    table = Rec({"routes": routes, "default_route": default}, tag="table")
    res = tr.call_function(RouteTable.find_best_route, [table, dst], {})
    if res is NONE:
        return {"status": "ERROR", "error": "translation returned None unconditionally"}
    fin = lambda x: z3.Not(z3.Or(z3.fpIsNaN(x), z3.fpIsInf(x)))
    zero = z3.FPVal(0.0, FP64)
    base = [z3.ULE(p, z3.BitVecVal(32, 32)) for p in plens] + [z3.And(fin(m), z3.fpGEQ(m, zero)) for m in mets]
    contains = [(dst & masks[i]) == (addrs[i] & masks[i]) for i in range(n)]

    def better(i, j):  # route i beats route j (both containing)
        return z3.Or(
            z3.UGT(plens[i], plens[j]),
            z3.And(plens[i] == plens[j], z3.Or(z3.fpLT(mets[i], mets[j]), z3.And(z3.fpEQ(mets[i], mets[j]), z3.BoolVal(i <= j)))),
        )

    win = [z3.And(contains[i], *[z3.Implies(contains[j], better(i, j)) for j in range(n) if j != i]) for i in range(n)]
    any_c = z3.Or(*contains)
    want_idx = z3.IntVal(-2)
    for i in reversed(range(n)):
        want_idx = z3.If(win[i], z3.IntVal(i), want_idx)
    want_present = z3.Or(any_c, has_default)
    want_idx = z3.If(any_c, want_idx, z3.IntVal(-1))
    ob = Obligations(timeout_ms=200000)
    wv = {"dst": dst, "has_default": has_default}
    for i in range(n):
        wv.update({f"addr{i}": addrs[i], f"plen{i}": plens[i], f"metric{i}": mets[i]})
    present = res.present if isinstance(res.present, bool) is False else z3.BoolVal(res.present)
    r1 = ob.prove(
        f"find_best_route == longest-prefix / lowest-metric / first-declared / default-last oracle (N={n})",
        base,
        z3.And(present == want_present, z3.Implies(want_present, res.fields["idx"] == want_idx)),
        wv,
    )
    # translator validation against the real RouteTable
    rnd = random.Random(11)
    validated = 0

    def real_idx(rt_routes, dflt, d):
        rt = RouteTable(sys_log=SysLog("r"))
        for (a, p, m) in rt_routes:
            mask = (0xFFFFFFFF << (32 - p)) & 0xFFFFFFFF if p else 0
            rt.routes.append(RouteEntry(address=IPv4Address(a), subnet_mask=IPv4Address(mask), next_hop_ip_address=IPv4Address("10.0.0.1"), metric=m))
        if dflt:
            rt.set_default_route_next_hop_ip_address(IPv4Address("10.0.0.2"))
        r = rt.find_best_route(IPv4Address(d))
        if r is None:
            return None
        if r is rt.default_route:
            return -1
        return [id(x) for x in rt.routes].index(id(r))

    cases = []
    for _ in range(60):
        d = rnd.getrandbits(32)
        rs = []
        for i in range(n):
            p = rnd.choice([0, 8, 16, 24, 24, 30, 32])
            a = (d if rnd.random() < 0.7 else rnd.getrandbits(32))
            a ^= rnd.getrandbits(32) & ((1 << (32 - p)) - 1 if p < 32 else 0)  # noise in host bits (strict=False)
            rs.append((a, p, rnd.choice([0.0, 1.0, 1.0, 2.5])))
        cases.append((rs, rnd.random() < 0.5, d))
    if r1["status"] == "REFUTED":
        m = r1["model"]
        cases.append(([(m[f"addr{i}"], m[f"plen{i}"], m[f"metric{i}"] if isinstance(m[f"metric{i}"], float) else 0.0) for i in range(n)], bool(m["has_default"]), m["dst"]))
    for rs, dflt, d in cases:
        sub = [(dst, z3.BitVecVal(d, 32)), (has_default, z3.BoolVal(dflt))]
        for i, (a, p, mt) in enumerate(rs):
            sub += [(addrs[i], z3.BitVecVal(a, 32)), (plens[i], z3.BitVecVal(p, 32)), (mets[i], z3.FPVal(mt, FP64))]
        enc_p = z3.simplify(z3.substitute(present, *sub))
        enc_i = z3.simplify(z3.substitute(res.fields["idx"], *sub))
        real = real_idx(rs, dflt, d)
        if z3.is_true(enc_p) != (real is not None) or (real is not None and enc_i.as_long() != real):
            return {"status": "ERROR", "error": f"translator validation: encoding ({enc_p},{enc_i}) != real {real} on {rs},{dflt},{d}"}
        validated += 1
    out = {
        "status": r1["status"], "obligations": len(ob.results), "smt_queries": ob.queries, "smt_time_s": round(ob.time_s, 3),
        "validated": validated, "detail": ob.results, "samples": [r1.get("assumption_witness", {})], "cover": ["lpm"],
        "translated": tr.translated,
    }
    if r1["status"] == "REFUTED":
        out["cex"] = {"args": dict(r1["model"], n=n), "kind": "violation", "message": r1["name"]}
    return out


def route_lpm_replay(n: int = 3, dst: int = 0, has_default: bool = False, **kw):
    """Concrete replay of a T1 counterexample on the real RouteTable against a plain-Python LPM reference."""
    from ipaddress import IPv4Address

    from primaite.simulator.network.hardware.nodes.network.router import RouteEntry, RouteTable
    from primaite.simulator.system.core.sys_log import SysLog

    quiet()
    rt = RouteTable(sys_log=SysLog("r"))
    rs = []
    for i in range(n):
        p = int(kw[f"plen{i}"])
        a = int(kw[f"addr{i}"])
        m = kw[f"metric{i}"]
        m = float(m) if not isinstance(m, str) else 0.0
        mask = (0xFFFFFFFF << (32 - p)) & 0xFFFFFFFF if p else 0
        rt.routes.append(RouteEntry(address=IPv4Address(a), subnet_mask=IPv4Address(mask), next_hop_ip_address=IPv4Address("10.0.0.1"), metric=m))
        rs.append((a, mask, p, m))
    if has_default:
        rt.set_default_route_next_hop_ip_address(IPv4Address("10.0.0.2"))
    got = rt.find_best_route(IPv4Address(dst))
    best = None
    for i, (a, mask, p, m) in enumerate(rs):
        if (dst & mask) == (a & mask):
            if best is None or p > rs[best][2] or (p == rs[best][2] and m < rs[best][3]):
                best = i
    if best is None:
        check((got is rt.default_route) if has_default else (got is None), f"no route contains {IPv4Address(dst)} but find_best_route returned {got}")
    else:
        check(got is rt.routes[best], f"find_best_route({IPv4Address(dst)}) did not return route {best} of {rs}")


# ------------------------------------------------------------------------------------------------ S: topologies
def _topo(two_routers: bool):
    """pc_a(192.168.1.2) - r1 [- r2] - pc_b; plus pc_c on pc_a's subnet (via a switch)."""
    from primaite.simulator.network.hardware.nodes.network.router import ACLAction

    quiet()
    sim = new_sim()
    net = sim.network
    sw = mk_node("switch", "sw1", start_up_duration=0, num_ports=4)
    sw.power_on()
    net.add_node(sw)
    a = mk_host("computer", "pc_a", "192.168.1.2", gw="192.168.1.1", start_up_duration=0)
    c = mk_host("computer", "pc_c", "192.168.1.3", gw="192.168.1.1", start_up_duration=0)
    r1 = mk_node("router", "r1", start_up_duration=0, num_ports=3)
    for n in (a, c, r1):
        n.power_on()
        net.add_node(n)
    r1.configure_port(port=1, ip_address="192.168.1.1", subnet_mask="255.255.255.0")
    net.connect(sw.network_interface[1], a.network_interface[1])
    net.connect(sw.network_interface[2], c.network_interface[1])
    net.connect(sw.network_interface[3], r1.network_interface[1])
    r1.enable_port(1)
    r1.acl.add_rule(action=ACLAction.PERMIT, position=1)
    routers = [r1]
    if two_routers:
        r2 = mk_node("router", "r2", start_up_duration=0, num_ports=3)
        r2.power_on()
        net.add_node(r2)
        r1.configure_port(port=2, ip_address="10.0.0.1", subnet_mask="255.255.255.252")
        r2.configure_port(port=1, ip_address="10.0.0.2", subnet_mask="255.255.255.252")
        net.connect(r1.network_interface[2], r2.network_interface[1])
        r1.enable_port(2)
        r2.enable_port(1)
        r2.configure_port(port=2, ip_address="192.168.2.1", subnet_mask="255.255.255.0")
        r2.acl.add_rule(action=ACLAction.PERMIT, position=1)
        r1.route_table.add_route(address="192.168.2.0", subnet_mask="255.255.255.0", next_hop_ip_address="10.0.0.2")
        r2.route_table.set_default_route_next_hop_ip_address("10.0.0.1")
        last, lp = r2, 2
        routers.append(r2)
    else:
        r1.configure_port(port=2, ip_address="192.168.2.1", subnet_mask="255.255.255.0")
        last, lp = r1, 2
    b = mk_host("server", "pc_b", "192.168.2.2", gw="192.168.2.1", start_up_duration=0)
    b.power_on()
    net.add_node(b)
    net.connect(last.network_interface[lp], b.network_interface[1])
    last.enable_port(lp)
    return sim, {"pc_a": a, "pc_b": b, "pc_c": c}, routers, sw


def ttl_hops(ttl0: int, two_routers: bool, warm: bool):
    """An echo request leaves pc_a with a solver-chosen TTL: every receiving interface / routing hop sees a strictly
    smaller TTL, nothing is handed on with TTL < 1, and the exchange succeeds when the TTL is large enough."""
    with concrete():
        sim, hosts, routers, sw = _topo(two_routers)
        a, b = hosts["pc_a"], hosts["pc_b"]
        if warm:
            a.ping("192.168.2.2", pings=1)
            a.ping("192.168.2.2", pings=1)
    assume(rng(ttl0, -1, 70))
    seen = []
    first = {"done": False}
    orig_send = a.network_interface[1].send_frame

    def send(frame):
        if frame.icmp is not None and not first["done"] and str(frame.ip.dst_ip_address) == "192.168.2.2":
            first["done"] = True
            frame.ip.ttl = ttl0
            seen.append(("sent", frame, ttl0))
        return orig_send(frame)

    object.__setattr__(a.network_interface[1], "send_frame", send)

    def spy(obj, attr, tag):
        orig = getattr(obj, attr)

        def w(frame, *args, **kw):
            if seen and frame is seen[0][1]:
                seen.append((tag, frame, frame.ip.ttl))
            return orig(frame, *args, **kw)

        object.__setattr__(obj, attr, w)

    for r in routers:
        for nic in r.network_interface.values():
            spy(nic, "receive_frame", "rx_" + r.config.hostname)
            spy(nic, "send_frame", "tx_" + r.config.hostname)
    spy(b.network_interface[1], "receive_frame", "rx_pc_b")
    delivered = []
    orig_sm = b.session_manager.receive_frame

    def sm(frame, from_network_interface):
        if seen and frame is seen[0][1]:
            delivered.append(frame.ip.ttl)
        return orig_sm(frame, from_network_interface)

    object.__setattr__(b.session_manager, "receive_frame", sm)
    ok = a.ping("192.168.2.2", pings=1)
    if not first["done"]:
        return  # request never left (cold ARP: the first exchange only resolves addresses)
    cover("request_sent")
    # strictly decreasing along the chain of receptions/forwards
    prev = ttl0
    for tag, fr, t in seen[1:]:
        if tag.startswith("rx_"):
            check(t <= prev, "TTL grew along the path")
            prev = t
        else:  # forwarded by a router
            check(t < ttl0, "a router forwarded the frame without lowering its TTL")
            check(t >= 1, lambda: f"a router forwarded a frame with exhausted TTL ({tag})")
            prev = t
    for t in delivered:
        check(t >= 1, "a frame with exhausted TTL was handed to the addressee's session manager")
        check(t < ttl0, "the frame reached the addressee without its TTL being lowered")
    hops = 4 if not two_routers else 6  # sw1 rx, r1 rx, r1 fwd, [r2 rx, r2 fwd,] pc_b rx
    if ttl0 - hops >= 1:
        cover("delivered")
        check(len(delivered) == 1, lambda: f"echo request with TTL {ttl0} (needs {hops}) was not delivered")
        check(ok, "ping with sufficient TTL over a permitted path failed")
    if ttl0 < 1:
        check(len(delivered) == 0 and not ok, "a frame sent with exhausted TTL was delivered")


TOGGLES = ["none", "a_nic_off", "b_nic_off", "r1_port1_off", "r1_off", "b_off", "acl_deny_icmp", "r1_port2_off", "sw_off"]


def reach(src: int, dst: int, tog: int, two_routers: bool, warm: bool):
    """Ping between every ordered host pair under one solver-chosen toggle vs an independent reachability model;
    the echo request is seen only by the addressee's software."""
    from primaite.simulator.network.hardware.nodes.network.router import ACLAction

    names = ["pc_a", "pc_b", "pc_c"]
    ips = {"pc_a": "192.168.1.2", "pc_b": "192.168.2.2", "pc_c": "192.168.1.3"}
    assume(all_of(rng(src, 0, 2), rng(dst, 0, 2), rng(tog, 0, len(TOGGLES) - 1)))
    s = pick(names, src)
    d = pick(names, dst)
    assume(s != d)
    t = pick(TOGGLES, tog)
    with concrete():
        sim, hosts, routers, sw = _topo(two_routers)
        r1 = routers[0]
        if warm:
            for x in names:
                for y in names:
                    if x != y:
                        hosts[x].ping(ips[y], pings=1)
        if t == "a_nic_off":
            hosts["pc_a"].network_interface[1].disable()
        elif t == "b_nic_off":
            hosts["pc_b"].network_interface[1].disable()
        elif t == "r1_port1_off":
            r1.network_interface[1].disable()
        elif t == "r1_port2_off":
            r1.network_interface[2].disable()
        elif t == "r1_off":
            r1.config.shut_down_duration = 0
            r1.power_off()
        elif t == "b_off":
            hosts["pc_b"].config.shut_down_duration = 0
            hosts["pc_b"].power_off()
        elif t == "sw_off":
            sw.config.shut_down_duration = 0
            sw.power_off()
        elif t == "acl_deny_icmp":
            r1.acl.add_rule(action=ACLAction.DENY, protocol="icmp", position=0)
        got_payload = {n: 0 for n in names}
        for n in names:
            h = hosts[n]
            orig = h.software_manager.receive_payload_from_session_manager

            def w(*a, n=n, orig=orig, **k):
                got_payload[n] += 1
                return orig(*a, **k)

            object.__setattr__(h.software_manager, "receive_payload_from_session_manager", w)
    # independent reachability model
    same_lan = {s, d} == {"pc_a", "pc_c"}
    crosses_r1 = not same_lan
    up = True
    if t == "sw_off" and ("pc_a" in (s, d) or "pc_c" in (s, d)):
        up = False
    if t == "a_nic_off" and "pc_a" in (s, d):
        up = False
    if t == "b_nic_off" and "pc_b" in (s, d):
        up = False
    if t == "b_off" and "pc_b" in (s, d):
        up = False
    if crosses_r1 and t in ("r1_port1_off", "r1_port2_off", "r1_off", "acl_deny_icmp"):
        up = False
    ok = False
    try:
        # two attempts: with a cold ARP cache the first exchange only resolves addresses
        ok = hosts[s].ping(ips[d], pings=1)
        ok = hosts[s].ping(ips[d], pings=1) or ok
        ok = hosts[s].ping(ips[d], pings=1) or ok
    except Exception as e:
        fail(f"ping {s}->{d} under {t} raised {type(e).__name__}: {e}")
    cover("up" if up else "down")
    check(bool(ok) == up, lambda: f"ping {s}->{d} under toggle {t} ({'2 routers' if two_routers else '1 router'}, {'warm' if warm else 'cold'} ARP): result {ok}, reachability model says {up}")
    third = [n for n in names if n not in (s, d)][0]
    check(got_payload[third] == 0, lambda: f"unicast exchange {s}->{d} was handed to software on {third}")


def _triangle():
    """pc_a - r1, pc_b - r3, routers in a triangle with ASYMMETRIC static routes: towards pc_b's subnet r1 goes via r2
    (r2 via r3), back towards pc_a's subnet r3 goes directly to r1."""
    from primaite.simulator.network.hardware.nodes.network.router import ACLAction

    quiet()
    sim = new_sim()
    net = sim.network
    rs = {}
    for name in ("r1", "r2", "r3"):
        r = mk_node("router", name, start_up_duration=0, num_ports=4)
        r.power_on()
        net.add_node(r)
        r.acl.add_rule(action=ACLAction.PERMIT, position=1)
        rs[name] = r
    a = mk_host("computer", "pc_a", "192.168.1.2", gw="192.168.1.1", start_up_duration=0)
    b = mk_host("server", "pc_b", "192.168.3.2", gw="192.168.3.1", start_up_duration=0)
    for h in (a, b):
        h.power_on()
        net.add_node(h)
    # transit links: r1-r2 10.0.12.0/30, r2-r3 10.0.23.0/30, r1-r3 10.0.13.0/30
    rs["r1"].configure_port(1, "192.168.1.1", "255.255.255.0")
    rs["r1"].configure_port(2, "10.0.12.1", "255.255.255.252")
    rs["r1"].configure_port(3, "10.0.13.1", "255.255.255.252")
    rs["r2"].configure_port(1, "10.0.12.2", "255.255.255.252")
    rs["r2"].configure_port(2, "10.0.23.1", "255.255.255.252")
    rs["r3"].configure_port(1, "192.168.3.1", "255.255.255.0")
    rs["r3"].configure_port(2, "10.0.23.2", "255.255.255.252")
    rs["r3"].configure_port(3, "10.0.13.2", "255.255.255.252")
    net.connect(rs["r1"].network_interface[1], a.network_interface[1])
    net.connect(rs["r3"].network_interface[1], b.network_interface[1])
    net.connect(rs["r1"].network_interface[2], rs["r2"].network_interface[1])
    net.connect(rs["r2"].network_interface[2], rs["r3"].network_interface[2])
    net.connect(rs["r1"].network_interface[3], rs["r3"].network_interface[3])
    for r, ports in (("r1", (1, 2, 3)), ("r2", (1, 2)), ("r3", (1, 2, 3))):
        for p in ports:
            rs[r].enable_port(p)
    rs["r1"].route_table.add_route(address="192.168.3.0", subnet_mask="255.255.255.0", next_hop_ip_address="10.0.12.2")
    rs["r2"].route_table.add_route(address="192.168.3.0", subnet_mask="255.255.255.0", next_hop_ip_address="10.0.23.2")
    rs["r2"].route_table.add_route(address="192.168.1.0", subnet_mask="255.255.255.0", next_hop_ip_address="10.0.12.1")
    rs["r3"].route_table.add_route(address="192.168.1.0", subnet_mask="255.255.255.0", next_hop_ip_address="10.0.13.1")
    return sim, a, b, rs


def reach_asymmetric(from_a: bool, n_warm: int, which_down: int):
    """Three routers in a triangle with asymmetric static routes (request and reply take different paths): a ping
    between the two hosts succeeds whenever every device on both paths is up; with the link of the reply path or of
    the request path down it fails."""
    assume(all_of(rng(n_warm, 0, 2), rng(which_down, 0, 3)))
    nw = pick_int(n_warm, 0, 2)
    down = pick(["none", "r1_r3", "r1_r2", "r2_r3"], which_down)
    with concrete():
        sim, a, b, rs = _triangle()
        src, dst_ip = (a, "192.168.3.2") if from_a else (b, "192.168.1.2")
        for _ in range(nw):
            a.ping("192.168.3.2", pings=1)
            b.ping("192.168.1.2", pings=1)
        if down == "r1_r3":
            rs["r1"].network_interface[3].disable()
        elif down == "r1_r2":
            rs["r1"].network_interface[2].disable()
        elif down == "r2_r3":
            rs["r2"].network_interface[2].disable()
        ok = False
        try:
            for _ in range(4):  # cold ARP on up to 4 hops: the first exchanges only resolve addresses
                ok = src.ping(dst_ip, pings=1) or ok
        except Exception as e:
            fail(f"ping raised {type(e).__name__}: {e}")
    # a->b uses r1-r2-r3, b->a uses r3-r1; an echo exchange needs both directions
    up = down == "none"
    cover("asym_up" if up else "asym_down")
    check(bool(ok) == up, lambda: f"ping {'a->b' if from_a else 'b->a'} with link {down} down, {nw} warm-up rounds: result {ok}, every device on both (asymmetric) paths {'is' if up else 'is not'} up")


FW_HOSTS = ["client_1", "client_2", "server_1", "dmz_1"]
FW_IPS = {"client_1": "192.168.1.2", "client_2": "192.168.1.3", "server_1": "192.168.2.10", "dmz_1": "192.168.3.10"}
FW_ZONE = {"client_1": "EXT", "client_2": "EXT", "server_1": "INT", "dmz_1": "DMZ"}
FW_LEAVE = {"EXT": "external_inbound_acl", "INT": "internal_outbound_acl", "DMZ": "dmz_outbound_acl"}  # list consulted when a frame arrives from the zone
FW_ENTER = {"EXT": "external_outbound_acl", "INT": "internal_inbound_acl", "DMZ": "dmz_inbound_acl"}  # list consulted before it is sent into the zone
FW_TOGGLES = ["none", "ext_port_down", "int_port_down", "dmz_port_down", "fw_off", "src_nic_off", "dst_off"] + ["deny_icmp:" + l for l in sorted(set(FW_LEAVE.values()) | set(FW_ENTER.values()))]


def reach_firewall(src: int, dst: int, tog: int, warm: bool):
    """Firewall with DMZ built by the real scenario loader: ping between every ordered pair of the four hosts (two on the
    external LAN, one internal, one in the DMZ) under a solver-chosen toggle agrees with an independent model - a pair
    in different zones needs the firewall ON, both zone ports up and ICMP permitted by the list of the zone the frame
    leaves and the list of the zone it enters, in both directions - and is never handed to a third host's software."""
    from primaite.game.game import PrimaiteGame
    from primaite.simulator.network.hardware.nodes.network.router import ACLAction
    from vlib.fixtures import mini_scenario

    assume(all_of(rng(src, 0, 3), rng(dst, 0, 3), rng(tog, 0, len(FW_TOGGLES) - 1)))
    s, d = pick(FW_HOSTS, src), pick(FW_HOSTS, dst)
    assume(s != d)
    t = pick(FW_TOGGLES, tog)
    with concrete():
        quiet()
        game = PrimaiteGame.from_config(copy.deepcopy(mini_scenario("firewalled", with_green=False, with_red=False)))
        net = game.simulation.network
        hosts = {n: net.get_node_by_hostname(n) for n in FW_HOSTS}
        fw = net.get_node_by_hostname("firewall_1")
        if warm:
            for x in FW_HOSTS:
                for y in FW_HOSTS:
                    if x != y:
                        hosts[x].ping(FW_IPS[y], pings=1)
        port_of = {"EXT": fw.external_port, "INT": fw.internal_port, "DMZ": fw.dmz_port}
        if t == "ext_port_down":
            fw.external_port.disable()
        elif t == "int_port_down":
            fw.internal_port.disable()
        elif t == "dmz_port_down":
            fw.dmz_port.disable()
        elif t == "fw_off":
            fw.config.shut_down_duration = 0
            fw.power_off()
        elif t == "src_nic_off":
            hosts[s].network_interface[1].disable()
        elif t == "dst_off":
            hosts[d].config.shut_down_duration = 0
            hosts[d].power_off()
        elif t.startswith("deny_icmp:"):
            getattr(fw, t.split(":")[1]).add_rule(action=ACLAction.DENY, protocol="icmp", position=0)
        got_payload = {n: 0 for n in FW_HOSTS}
        for n in FW_HOSTS:
            h = hosts[n]
            orig = h.software_manager.receive_payload_from_session_manager

            def w(*a, n=n, orig=orig, **k):
                got_payload[n] += 1
                return orig(*a, **k)

            object.__setattr__(h.software_manager, "receive_payload_from_session_manager", w)
        zs, zd = FW_ZONE[s], FW_ZONE[d]
        up = t not in ("src_nic_off", "dst_off")
        if zs != zd:
            if t == "fw_off":
                up = False
            if t.endswith("_port_down") and t.split("_")[0].upper() in (zs, zd):
                up = False
            if t.startswith("deny_icmp:") and t.split(":")[1] in (FW_LEAVE[zs], FW_ENTER[zd], FW_LEAVE[zd], FW_ENTER[zs]):
                up = False
        ok = False
        try:
            for _ in range(3):
                ok = hosts[s].ping(FW_IPS[d], pings=1) or ok
        except Exception as e:
            fail(f"ping {s}->{d} under {t} raised {type(e).__name__}: {e}")
    cover("fw_up" if up else "fw_down")
    check(bool(ok) == up, lambda: f"ping {s}->{d} under toggle {t} ({'warm' if warm else 'cold'} ARP) through the firewall: result {ok}, reachability model says {up}")
    for third in FW_HOSTS:
        if third not in (s, d):
            check(got_payload[third] == 0, lambda: f"unicast exchange {s}->{d} was handed to software on {third}")


WL_TOGGLES = ["none", "ap1_down", "ap2_down", "r1_off", "r2_off", "r1_wired_down", "r2_acl_deny_icmp", "other_frequency", "dst_off"]


def reach_wireless(from_a: bool, tog: int, warm: bool):
    """The shipped wireless-WAN scenario (pc_a - wireless router 1 ~air~ wireless router 2 - pc_b) built by the real
    loader: a ping across the wireless hop succeeds exactly when every device and interface on the path is up, both
    access points are on the same frequency and no ACL denies it; nothing is handed to the peer's software otherwise."""
    import yaml

    from primaite.game.game import PrimaiteGame
    from primaite.simulator.network.hardware.nodes.network.router import ACLAction

    assume(rng(tog, 0, len(WL_TOGGLES) - 1))
    t = pick(WL_TOGGLES, tog)
    from_a = True if from_a else False
    with concrete():
        quiet()
        with open("/repo/tests/assets/configs/wireless_wan_network_config.yaml") as fh:
            cfg = yaml.safe_load(fh)
        if t == "other_frequency":
            for n in cfg["simulation"]["network"]["nodes"]:
                if n["hostname"] == "router_2":
                    n["wireless_access_point"]["frequency"] = "WIFI_5"
        game = PrimaiteGame.from_config(cfg)
        net = game.simulation.network
        a, b = net.get_node_by_hostname("pc_a"), net.get_node_by_hostname("pc_b")
        r1, r2 = net.get_node_by_hostname("router_1"), net.get_node_by_hostname("router_2")
        if warm:
            a.ping("192.168.2.2", pings=1)
            b.ping("192.168.0.2", pings=1)
        src, dst, dst_ip = (a, b, "192.168.2.2") if from_a else (b, a, "192.168.0.2")
        if t == "ap1_down":
            r1.wireless_access_point.disable()
        elif t == "ap2_down":
            r2.wireless_access_point.disable()
        elif t == "r1_off":
            r1.config.shut_down_duration = 0
            r1.power_off()
        elif t == "r2_off":
            r2.config.shut_down_duration = 0
            r2.power_off()
        elif t == "r1_wired_down":
            r1.network_interface[2].disable()
        elif t == "r2_acl_deny_icmp":
            r2.acl.add_rule(action=ACLAction.DENY, protocol="icmp", position=0)
        elif t == "dst_off":
            dst.config.shut_down_duration = 0
            dst.power_off()
        got = []
        orig = dst.software_manager.receive_payload_from_session_manager
        object.__setattr__(dst.software_manager, "receive_payload_from_session_manager", lambda *aa, **kw: (got.append(1), orig(*aa, **kw))[1])
        ok = False
        try:
            for _ in range(4):
                ok = src.ping(dst_ip, pings=1) or ok
        except Exception as e:
            fail(f"ping across the wireless hop under {t} raised {type(e).__name__}: {e}")
    up = t == "none"
    cover("wl_up" if up else "wl_down")
    check(bool(ok) == up, lambda: f"ping {'pc_a->pc_b' if from_a else 'pc_b->pc_a'} across the wireless hop under toggle {t} ({'warm' if warm else 'cold'}): result {ok}, model says {up}")
    if not up:
        check(not got, lambda: f"with the path down ({t}) a payload was still handed to the destination's software")


METRIC_PAIRS = [(1.8, 1.2), (2.0, 1.0), (0.5, 0.25), (1.0, 1.0), (3.0, 2.999), (0.0, 0.9)]


def routes_from_config(mi: int, swap: bool, plen_i: int, with_default: bool):
    """Route tables declared in a scenario: a router built by Router.from_config from a config dict whose `routes` give
    two equal-prefix routes with solver-chosen (possibly fractional) metrics in either order, a covering shorter prefix
    and optionally a default route: find_best_route returns the longest-prefix route of lowest declared metric (first
    declared on a tie), and the declared metrics are the ones in the table."""
    from ipaddress import IPv4Address

    from primaite.simulator.network.hardware.nodes.network.router import Router

    assume(all_of(rng(mi, 0, len(METRIC_PAIRS) - 1), rng(plen_i, 0, 1)))
    m1, m2 = pick(METRIC_PAIRS, mi)
    if swap:
        m1, m2 = m2, m1
    mask = pick(["255.255.255.0", "255.255.255.192"], plen_i)
    with concrete():
        quiet()
        routes = [
            {"address": "172.16.0.0", "subnet_mask": "255.255.0.0", "next_hop_ip_address": "10.0.0.9", "metric": 0.1},
            {"address": "172.16.5.0", "subnet_mask": mask, "next_hop_ip_address": "10.0.0.2", "metric": m1},
            {"address": "172.16.5.0", "subnet_mask": mask, "next_hop_ip_address": "10.0.0.3", "metric": m2},
        ]
        cfg = {
            "type": "router", "hostname": "r_cfg", "num_ports": 3, "start_up_duration": 0,
            "ports": {1: {"ip_address": "10.0.0.1", "subnet_mask": "255.255.255.0"}},
            "acl": {10: {"action": "PERMIT"}},
            "routes": routes,
        }
        if with_default:
            cfg["default_route"] = {"next_hop_ip_address": "10.0.0.7"}
        try:
            r = Router.from_config(config=cfg)
        except Exception as e:
            fail(f"Router.from_config raised {type(e).__name__}: {str(e)[:200]}")
        got = sorted((str(x.address), str(x.subnet_mask), str(x.next_hop_ip_address), float(x.metric)) for x in r.route_table.routes)
        want = sorted((x["address"], x["subnet_mask"], x["next_hop_ip_address"], float(x["metric"])) for x in routes)
        best = r.route_table.find_best_route(IPv4Address("172.16.5.9"))
        other = r.route_table.find_best_route(IPv4Address("172.16.99.1"))
        nowhere = r.route_table.find_best_route(IPv4Address("8.8.8.8"))
    cover("cfg_routes")
    check(got == want, lambda: f"route table built from the scenario {got} differs from the declared routes {want}")
    exp_hop = "10.0.0.2" if m1 <= m2 else "10.0.0.3"
    check(best is not None and str(best.next_hop_ip_address) == exp_hop, lambda: f"declared metrics {m1} (via .2, first) and {m2} (via .3): best route goes via {best.next_hop_ip_address if best else None}, expected {exp_hop}")
    check(other is not None and str(other.next_hop_ip_address) == "10.0.0.9", "destination covered only by the /16 is not routed via the /16")
    if with_default:
        check(nowhere is not None and str(nowhere.next_hop_ip_address) == "10.0.0.7", "uncovered destination does not use the default route")
    else:
        check(nowhere is None, "uncovered destination got a route although no default route is declared")


def reach_after_loop(n_stray: int, from_in: bool, stray_from: int, warm: bool):
    """A firewall whose default route points at an upstream router that holds a summary route back to it (a common
    set-up): packets for an unused address of the summarised range bounce between the two until their TTL runs out -
    handling them terminates, nothing is delivered - and AFTERWARDS the permitted exchanges between the real hosts still
    succeed in both directions (a stray packet must not poison what the devices have learnt)."""
    from primaite.simulator.network.hardware.nodes.network.router import ACLAction

    assume(all_of(rng(n_stray, 0, 2), rng(stray_from, 0, 1)))
    n = pick_int(n_stray, 0, 2)
    sf = pick_int(stray_from, 0, 1)
    from_in = True if from_in else False
    with concrete():
        quiet()
        sim = new_sim()
        net = sim.network
        fw = mk_node("firewall", "fw", start_up_duration=0)
        up = mk_node("router", "r_up", start_up_duration=0, num_ports=2)
        pin = mk_host("computer", "pc_in", "192.168.1.2", gw="192.168.1.1", start_up_duration=0)
        pout = mk_host("computer", "pc_out", "172.16.0.2", gw="172.16.0.1", start_up_duration=0)
        for x in (fw, up, pin, pout):
            x.power_on()
            net.add_node(x)
        fw.configure_internal_port("192.168.1.1", "255.255.255.0")
        fw.configure_external_port("10.0.0.2", "255.255.255.252")
        up.configure_port(port=1, ip_address="10.0.0.1", subnet_mask="255.255.255.252")
        up.configure_port(port=2, ip_address="172.16.0.1", subnet_mask="255.255.255.0")
        net.connect(fw.internal_port, pin.network_interface[1])
        net.connect(fw.external_port, up.network_interface[1])
        net.connect(up.network_interface[2], pout.network_interface[1])
        fw.internal_port.enable()
        fw.external_port.enable()
        up.enable_port(1)
        up.enable_port(2)
        for acl in (fw.internal_inbound_acl, fw.internal_outbound_acl, fw.external_inbound_acl, fw.external_outbound_acl, fw.acl, up.acl):
            acl.add_rule(action=ACLAction.PERMIT, position=1)
        fw.route_table.set_default_route_next_hop_ip_address("10.0.0.1")
        up.route_table.add_route(address="192.168.0.0", subnet_mask="255.255.0.0", next_hop_ip_address="10.0.0.2")  # summary back to the firewall
        delivered = []
        for h in (pin, pout):
            orig = h.software_manager.receive_payload_from_session_manager
            object.__setattr__(
                h.software_manager,
                "receive_payload_from_session_manager",
                lambda *a, h=h, orig=orig, **k: (delivered.append(h.config.hostname) if getattr(k.get("frame"), "icmp", None) is not None else None, orig(*a, **k))[1],
            )  # (address resolution also arrives this way: only ICMP deliveries are recorded)
        try:
            if warm:
                pin.ping("172.16.0.2", pings=1)
                pout.ping("192.168.1.2", pings=1)
            for _ in range(n):
                del delivered[:]
                stray_ok = (pin if sf == 0 else pout).ping("192.168.77.7", pings=1)  # unused address inside the summary
                if stray_ok or delivered:
                    fail(f"a ping to an unused address was answered / delivered to {delivered}")
            ok = False
            src, dst_ip = (pin, "172.16.0.2") if from_in else (pout, "192.168.1.2")
            for _ in range(3):
                ok = src.ping(dst_ip, pings=1) or ok
        except RecursionError:
            fail("handling a packet for an unused address did not terminate (recursion)")
        except Exception as e:
            fail(f"raised {type(e).__name__}: {str(e)[:200]}")
    cover("after_loop")
    check(ok, lambda: f"after {n} stray packet(s) from {'pc_in' if sf == 0 else 'pc_out'} bounced between the firewall and the upstream router, ping {'pc_in->pc_out' if from_in else 'pc_out->pc_in'} fails although every device is up and permits it ({'warm' if warm else 'cold'} start)")


def _two_router_lan():
    """One LAN (192.168.1.0/24, a switch) with TWO routers on it: r1 is the hosts' default gateway and routes the remote
    subnet 192.168.2.0/24 via r2 (192.168.1.254), which is attached to it directly. Replies from the remote subnet come
    back from r2 straight onto the LAN."""
    from primaite.simulator.network.hardware.nodes.network.router import ACLAction

    quiet()
    sim = new_sim()
    net = sim.network
    sw = mk_node("switch", "sw1", start_up_duration=0, num_ports=4)
    sw.power_on()
    net.add_node(sw)
    a = mk_host("computer", "pc_a", "192.168.1.2", gw="192.168.1.1", start_up_duration=0)
    b = mk_host("server", "pc_b", "192.168.2.2", gw="192.168.2.1", start_up_duration=0)
    r1 = mk_node("router", "r1", start_up_duration=0, num_ports=2)
    r2 = mk_node("router", "r2", start_up_duration=0, num_ports=2)
    for n in (a, b, r1, r2):
        n.power_on()
        net.add_node(n)
    r1.configure_port(port=1, ip_address="192.168.1.1", subnet_mask="255.255.255.0")
    r2.configure_port(port=1, ip_address="192.168.1.254", subnet_mask="255.255.255.0")
    r2.configure_port(port=2, ip_address="192.168.2.1", subnet_mask="255.255.255.0")
    net.connect(sw.network_interface[1], a.network_interface[1])
    net.connect(sw.network_interface[2], r1.network_interface[1])
    net.connect(sw.network_interface[3], r2.network_interface[1])
    net.connect(r2.network_interface[2], b.network_interface[1])
    r1.enable_port(1)
    r2.enable_port(1)
    r2.enable_port(2)
    r1.acl.add_rule(action=ACLAction.PERMIT, position=1)
    r2.acl.add_rule(action=ACLAction.PERMIT, position=1)
    r1.route_table.add_route(address="192.168.2.0", subnet_mask="255.255.255.0", next_hop_ip_address="192.168.1.254")
    return sim, a, b, r1, r2, sw


def gateway_lan(first_from_b: bool, n_warm: int, gw_blocks: int, proto: int):
    """Hosts reach other subnets through their default gateway in EVERY ARP-cache state: on a LAN with two routers, every
    unicast IP frame pc_a emits for an off-subnet address is addressed (MAC) to its configured gateway r1 - also after
    it has received routed frames from the remote host that arrived via the other router - so an exchange the gateway
    does not forward (ACL, gateway port down) does not complete, and one that every device permits does."""
    assume(all_of(rng(n_warm, 0, 2), rng(gw_blocks, 0, 2), rng(proto, 0, 1)))
    nw = pick_int(n_warm, 0, 2)
    blk = pick(["none", "acl_deny", "gw_port_down"], gw_blocks)
    proto = pick_int(proto, 0, 1)
    first_from_b = True if first_from_b else False
    with concrete():
        from primaite.simulator.network.hardware.nodes.network.router import ACLAction

        sim, a, b, r1, r2, sw = _two_router_lan()
        gw_mac = r1.network_interface[1].mac_address
        open_port = sorted(p for p in b.software_manager.get_open_ports() if p > 0)[0]  # a port pc_b listens on
        sent = []
        orig_send = a.network_interface[1].send_frame

        def send(frame):
            if frame.ip is not None and getattr(frame, "arp", None) is None and frame.ethernet.dst_mac_addr.lower() != "ff:ff:ff:ff:ff:ff":
                sent.append((str(frame.ip.dst_ip_address), frame.ethernet.dst_mac_addr))
            return orig_send(frame)

        object.__setattr__(a.network_interface[1], "send_frame", send)
        # history: who talks first, and how many warm-up exchanges (these fill pc_a's ARP cache, also with entries
        # learnt from routed frames)
        try:
            for _ in range(nw):
                if first_from_b:
                    b.ping("192.168.1.2", pings=1)
                    a.ping("192.168.2.2", pings=1)
                else:
                    a.ping("192.168.2.2", pings=1)
                    b.ping("192.168.1.2", pings=1)
            if blk == "acl_deny":
                r1.acl.add_rule(action=ACLAction.DENY, position=0, dst_ip_address="192.168.2.0", dst_wildcard_mask="0.0.0.255")
            elif blk == "gw_port_down":
                r1.network_interface[1].disable()
            ok = False
            for _ in range(4):
                if proto == 0:
                    ok = a.ping("192.168.2.2", pings=1) or ok
                else:
                    got = []
                    orig_recv = b.software_manager.receive_payload_from_session_manager
                    object.__setattr__(b.software_manager, "receive_payload_from_session_manager", lambda *aa, **kw: (got.append(1), orig_recv(*aa, **kw))[1])
                    a.software_manager.send_payload_to_session_manager(payload="hello", dest_ip_address=__import__("ipaddress").IPv4Address("192.168.2.2"), dest_port=open_port, src_port=open_port)
                    object.__setattr__(b.software_manager, "receive_payload_from_session_manager", orig_recv)
                    ok = bool(got) or ok
        except Exception as e:
            fail(f"exchange raised {type(e).__name__}: {e}")
    for dst, mac in sent:
        if not dst.startswith("192.168.1."):
            check(mac == gw_mac, lambda: f"pc_a addressed a frame for off-subnet {dst} to {mac}, not to its default gateway r1 ({gw_mac}) [{nw} warm-up rounds, {'b' if first_from_b else 'a'} first]")
    up = blk == "none"
    cover("gw_up" if up else "gw_blocked")
    check(bool(ok) == up, lambda: f"{'ping' if proto == 0 else 'tcp payload'} pc_a->pc_b with gateway condition {blk}, {nw} warm-up rounds ({'b' if first_from_b else 'a'} first): delivered={ok}, model says {up}")


def addressee(mac_kind: int, ip_kind: int, node_on: bool):
    """HostNode: a frame is handed to the session manager only if it is addressed to this interface (own MAC, or a
    broadcast MAC with own / subnet-broadcast IP)."""
    from primaite.simulator.network.protocols.icmp import ICMPPacket
    from primaite.simulator.network.transmission.data_link_layer import EthernetHeader, Frame
    from primaite.simulator.network.transmission.network_layer import IPPacket

    assume(all_of(rng(mac_kind, 0, 2), rng(ip_kind, 0, 3)))
    mk = pick(["own", "other", "broadcast"], mac_kind)
    ik = pick(["own", "other_same_subnet", "subnet_broadcast", "foreign"], ip_kind)
    with concrete():
        quiet()
        sim = new_sim()
        a = mk_host("computer", "pc_a", "192.168.1.2", start_up_duration=0, shut_down_duration=0)
        b = mk_host("computer", "pc_b", "192.168.1.3", start_up_duration=0)
        a.power_on()
        b.power_on()
        sim.network.add_node(a)
        sim.network.add_node(b)
        sim.network.connect(a.network_interface[1], b.network_interface[1])
        nic = a.network_interface[1]
        if not node_on:
            a.power_off()  # interfaces go down with the node (C12); the frame is offered to the interface anyway
        mac = {"own": nic.mac_address, "other": "aa:aa:aa:aa:aa:aa", "broadcast": "ff:ff:ff:ff:ff:ff"}[mk]
        ip = {"own": "192.168.1.2", "other_same_subnet": "192.168.1.9", "subnet_broadcast": "192.168.1.255", "foreign": "10.1.1.1"}[ik]
        frame = Frame(
            ethernet=EthernetHeader(src_mac_addr=b.network_interface[1].mac_address, dst_mac_addr=mac),
            ip=IPPacket(src_ip_address="192.168.1.3", dst_ip_address=ip, protocol="icmp"),
            icmp=ICMPPacket(),
        )
        log = CallLog()
        log.wrap(a.session_manager, "receive_frame", "sm")
    nic.receive_frame(frame)
    mine = (mk == "own") or (mk == "broadcast" and ik in ("own", "subnet_broadcast"))
    cover("mine" if mine else "not_mine")
    if not mine or not node_on:
        check(log.count("sm") == 0, lambda: f"frame (mac {mk}, ip {ik}, node {'ON' if node_on else 'OFF'}) was handed to the session manager")
    else:
        check(log.count("sm") == 1, lambda: f"frame addressed to this interface (mac {mk}, ip {ik}) was not handed to the session manager")


HARNESSES = {
    "route_lpm_smt": {
        "fn": route_lpm_smt,
        "replay_fn": route_lpm_replay,
        "kind": "smt",
        "quick": [{"fixed": {"n": 3}, "timeout": 400}],
        "thorough": [{"fixed": {"n": 4}, "timeout": 900}, {"fixed": {"n": 2}, "timeout": 300}],
        "cover": ["lpm"],
        "bounds": {"quick": "all destinations, all addresses, all prefix lengths 0..32, all finite metrics >= 0, N=3 routes + optional default", "thorough": "N=4 and N=2"},
    },
    "ttl_hops": {
        "fn": ttl_hops,
        "quick": [{"fixed": {"two_routers": False}, "timeout": 280}, {"fixed": {"two_routers": True, "warm": True}, "timeout": 280}],
        "thorough": [{"fixed": {"two_routers": t, "warm": w}, "timeout": 900} for t in (False, True) for w in (False, True)],
        "cover": ["request_sent", "delivered"],
        "bounds": "initial TTL -1..70 as a solver integer; 1 and 2 routers; cold and warm ARP",
    },
    "reach": {
        "fn": reach,
        "quick": [{"fixed": {"two_routers": False, "warm": False}, "timeout": 280}, {"fixed": {"two_routers": True, "warm": True}, "timeout": 280}],
        "thorough": [{"fixed": {"two_routers": t, "warm": w}, "timeout": 1200} for t in (False, True) for w in (False, True)],
        "cover": ["up", "down"],
        "bounds": "3 hosts (two on a switched LAN, one behind 1-2 routers with static + default routes, /24 and /30 links), all 6 ordered pairs, 9 toggles, cold/warm ARP",
    },
    "reach_asymmetric": {
        "fn": reach_asymmetric,
        "quick": [{"fixed": {}, "timeout": 280}],
        "thorough": [{"fixed": {}, "timeout": 600}],
        "cover": ["asym_up", "asym_down"],
        "bounds": "3 routers in a triangle with asymmetric static routes, both directions, 0-2 warm-up rounds (ARP/transit caches cold or warm), each transit link down or none",
    },
    "reach_firewall": {
        "fn": reach_firewall,
        "quick": [{"fixed": {"warm": w}, "timeout": 280} for w in (False, True)],
        "thorough": [{"fixed": {"warm": w, "src": s0}, "timeout": 900} for w in (False, True) for s0 in range(4)],
        "cover": ["fw_up", "fw_down"],
        "bounds": "generated firewall-with-DMZ scenario (2 external hosts on a switch, 1 internal, 1 DMZ), all 12 ordered pairs, 13 toggles (each zone port down, firewall off, source interface off, destination off, ICMP denied in each of the six lists), cold/warm ARP",
    },
    "reach_wireless": {
        "fn": reach_wireless,
        "quick": [{"fixed": {}, "timeout": 280}],
        "thorough": [{"fixed": {"warm": w}, "timeout": 600} for w in (False, True)],
        "cover": ["wl_up", "wl_down"],
        "bounds": "the shipped wireless-WAN scenario (two wireless routers, one host behind each), both directions, 9 toggles (either access point down, either router off, a wired port down, ACL deny, access points on different frequencies, destination off), cold/warm ARP",
    },
    "routes_from_config": {
        "fn": routes_from_config,
        "quick": [{"fixed": {}, "timeout": 200}],
        "thorough": [{"fixed": {}, "timeout": 400}],
        "cover": ["cfg_routes"],
        "bounds": "a router built by Router.from_config: 6 metric pairs (fractional, equal, near-equal, zero) in either order for two equal-prefix routes (/24 or /26) under a covering /16, with/without default route",
    },
    "reach_after_loop": {
        "fn": reach_after_loop,
        "quick": [{"fixed": {}, "timeout": 280}],
        "thorough": [{"fixed": {}, "timeout": 600}],
        "cover": ["after_loop"],
        "bounds": "host - firewall (default route up) - router (summary route back) - host; 0-2 stray pings to an unused address of the summarised range from either side, then a ping between the hosts in either direction, cold or warm start",
    },
    "gateway_lan": {
        "fn": gateway_lan,
        "quick": [{"fixed": {}, "timeout": 280}],
        "thorough": [{"fixed": {"proto": pr}, "timeout": 600} for pr in (0, 1)],
        "cover": ["gw_up", "gw_blocked"],
        "bounds": "one LAN with two routers (the default gateway routes the remote subnet via the other router, replies come back from the other router directly); 0-2 warm-up rounds, either side talking first; gateway permitting / denying by ACL / its LAN port down; ICMP and a TCP payload",
    },
    "addressee": {
        "fn": addressee,
        "quick": [{"fixed": {}, "timeout": 120}],
        "thorough": [{"fixed": {}, "timeout": 120}],
        "cover": ["mine", "not_mine"],
        "bounds": "dst MAC own/other/broadcast x dst IP own/same-subnet/subnet-broadcast/foreign x node ON/OFF",
    },
}

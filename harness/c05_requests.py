"""C05 – requests resolve to a documented status; refused requests change nothing (Engine S)."""
from __future__ import annotations

import copy

from vlib import chdriver
from vlib.chdriver import all_of, any_of, assume, check, concretize, cover, fail, pick, pick_int, rng
from vlib.fixtures import CallLog, concrete, mini_scenario, quiet, snap

SOURCES = [
    "/repo/src/primaite/simulator/core.py",
    "/repo/src/primaite/interface/request.py",
    "/repo/src/primaite/simulator/sim_container.py",
    "/repo/src/primaite/simulator/network/container.py",
    "/repo/src/primaite/simulator/network/hardware/base.py",
    "/repo/src/primaite/simulator/file_system/file_system.py",
    "/repo/src/primaite/simulator/file_system/folder.py",
    "/repo/src/primaite/game/agent/actions/manager.py",
]
ENCODED = [
    "primaite.simulator.core.RequestManager.__call__ / check_valid / add_request",
    "primaite.simulator.core.SimComponent.apply_request",
    "live request tree of Simulation -> Network -> Node -> {service, application, file_system, network_interface, os, software_manager}",
    "primaite.game.agent.actions.*.form_request for the action types in the generated action map",
    "validators: Node._NodeIsOnValidator/_NodeIsOffValidator, Service._StateValidator, Application._StateValidator, "
    "NetworkInterface._EnabledValidator/_DisabledValidator, FileSystem/Folder exists validators",
]
ASSUMPTIONS = [
    "kernel harness: synthetic 3-level tree of real RequestManager/RequestType objects; validators and the handler's "
    "answer are solver booleans/indices; request keys are present/misspelt/truncated per solver choice",
    "live harness: generated mini-scenario (switch + 2 computers + server, or host-router-server) built by the real "
    "PrimaiteGame.from_config; the path index ranges over get_request_types_recursively() restricted to leaves that "
    "take no positional arguments plus a table of argument templates; node power state, service/application state, NIC "
    "flag are overwritten with every member of the real enums (no reachability restriction)",
    "'handler reached' is observed by wrapping the func of every leaf RequestType in the live tree (instances only)",
    "logging stubbed; identifiers opaque",
]

STATUSES = ["success", "failure", "unreachable", "pending"]


# ------------------------------------------------------------------------------------------------ kernel
def rm_kernel(m1: bool, m2: bool, m3: bool, v1: bool, v2: bool, v3: bool, depth: int, ans: int):
    """RequestManager.__call__/check_valid on a synthetic tree a -> b -> c. depth = number of keys supplied (0..3)."""
    from primaite.interface.request import RequestResponse
    from primaite.simulator.core import RequestManager, RequestPermissionValidator, RequestType

    assume(all_of(rng(depth, 0, 3), rng(ans, 0, 3)))
    answer = pick(STATUSES, ans)
    calls = []

    class V(RequestPermissionValidator):
        ok: bool = True
        tag: str = ""

        def __call__(self, request, context) -> bool:
            calls.append("v" + self.tag)
            return self._ok

        @property
        def fail_message(self) -> str:
            return "refused by " + self.tag

    def mk(tag, ok):
        with concrete():
            v = V(tag=tag)
        object.__setattr__(v, "_ok", ok)
        return v

    def leaf(request, context):
        calls.append("leaf")
        return RequestResponse(status=answer, data={})

    with concrete():
        quiet()
        root, ma, mb = RequestManager(), RequestManager(), RequestManager()
    mb.add_request("c", RequestType(func=leaf, validator=mk("3", v3)))
    ma.add_request("b", RequestType(func=mb, validator=mk("2", v2)))
    root.add_request("a", RequestType(func=ma, validator=mk("1", v1)))
    keys = [("zz" if m1 else "a"), ("zz" if m2 else "b"), ("zz" if m3 else "c")]
    d = pick_int(depth, 0, 3)
    request = keys[:d]
    # ---- reference
    obstacle = None  # ("unreachable"|"failure", tag)
    for i in range(3):
        if i >= d:
            obstacle = ("unreachable", "truncated")
            break
        if [m1, m2, m3][i]:
            obstacle = ("unreachable", "missing")
            break
        if not [v1, v2, v3][i]:
            obstacle = ("failure", str(i + 1))
            break
    try:
        valid = root.check_valid(list(request), {})
    except Exception as e:
        fail(f"check_valid raised {type(e).__name__} on request {request}")
    check(all(c != "leaf" for c in calls), "check_valid executed the handler")
    del calls[:]
    try:
        resp = root(list(request), {})
    except Exception as e:
        fail(f"RequestManager.__call__ raised {type(e).__name__} on request {request}")
    reached = "leaf" in calls
    check(resp is not None and resp.status in STATUSES, "answer is not one of the four documented statuses")
    if obstacle is None:
        cover("reached")
        check(reached, "no obstacle on the path but the handler did not run")
        check(resp.status == answer, "handler's answer not passed through")
        check(bool(valid), "check_valid says invalid although the request reaches its handler")
    else:
        cover("obstacle_" + obstacle[0])
        check(not reached, "handler ran although the path has an obstacle")
        check(resp.status == obstacle[0], lambda: f"obstacle {obstacle} answered {resp.status}")
        if obstacle[0] == "failure":
            check(resp.data.get("reason") == "refused by " + obstacle[1], "failure does not carry the refusing validator's reason")
        check(not bool(valid), lambda: f"check_valid says valid although the request is turned away ({obstacle})")


# ------------------------------------------------------------------------------------------------ live tree
ARG_TEMPLATES = {
    ("file_system", "delete", "file"): ["docs", "a.txt"],
    ("file_system", "delete", "folder"): ["docs"],
    ("file_system", "create", "file"): ["docs", "n.txt", False],
    ("file_system", "create", "folder"): ["newf"],
    ("file_system", "access"): ["docs", "a.txt"],
    ("file_system", "restore", "file"): ["docs", "a.txt"],
    ("file_system", "restore", "folder"): ["docs"],
    ("software_manager", "application", "install"): ["dos-bot"],
    ("software_manager", "application", "uninstall"): ["web-browser"],
}
SKIP_LEAVES = {
    # leaves whose positional arguments are structured payloads (covered by the action harness instead)
    "add_user", "disable_user", "change_password", "remote_login", "remote_logout", "node_session_remote_login",
    "remote_logoff", "send_remote_command", "send_local_command", "send", "ping_scan", "port_scan",
    "network_service_recon", "add_rule", "remove_rule", "configure",
}


def _paths(sim, node_name):
    out = []
    for p in sim._request_manager.get_request_types_recursively():
        if len(p) < 3 or p[2] != node_name:
            continue
        if p[-1] in SKIP_LEAVES:
            continue
        tail = tuple(p[3:])
        args = ARG_TEMPLATES.get(tail, [])
        if len(tail) == 4 and tail[0] == "file_system" and tail[1] == "folder" and tail[3] == "delete":
            args = ["a.txt"]  # 'delete' on a folder takes the name of the file to remove
        out.append((p, args))
    return out


def _wrap_leaves(rm, log, seen=None):
    from primaite.simulator.core import RequestManager, RequestType

    seen = seen if seen is not None else set()
    if id(rm) in seen:
        return
    seen.add(id(rm))
    for name, rt in list(rm.request_types.items()):
        if isinstance(rt.func, RequestManager):
            _wrap_leaves(rt.func, log, seen)
        else:
            orig = rt.func

            def w(request, context, orig=orig):
                log.append("reached")
                return orig(request, context)

            rm.request_types[name] = RequestType(func=w, validator=rt.validator)


def _game(kind="switched"):
    from primaite.game.game import PrimaiteGame

    quiet()
    chdriver.OPAQUE_SYMBOLIC_FORMAT = False
    if kind == "wireless":  # the shipped wireless-WAN scenario (two wireless routers, no agents)
        import yaml

        with open("/repo/tests/assets/configs/wireless_wan_network_config.yaml") as fh:
            cfg = yaml.safe_load(fh)
    else:
        cfg = mini_scenario(kind, with_green=False, with_red=False)
    game = PrimaiteGame.from_config(copy.deepcopy(cfg))
    return game


NODE_STATES = ["ON", "SHUTTING_DOWN", "OFF", "BOOTING"]


def _set_node_state(node, st):
    """Drive the real node into power state st through its own API (concrete)."""
    if st == "SHUTTING_DOWN":
        node.config.shut_down_duration = 2
        node.power_off()
    elif st in ("OFF", "BOOTING"):
        node.config.shut_down_duration = 0
        node.power_off()
        if st == "BOOTING":
            node.config.start_up_duration = 2
            node.power_on()
    assert node.operating_state.name == st


def live_tree(pi: int, mut: int, ns: int, svc_state: int, app_state: int, nic_en: bool, kind: str = "switched", node_name: str = "client_1", couple: bool = False, fstate: int = 0):
    """Every argument-free leaf path of the live tree (+ templates), optionally misspelt/truncated at position `mut`
    (mut = -1: unmodified; 0..len-1: misspell that element; 100+k: truncate to k elements)."""
    from primaite.simulator.system.applications.application import ApplicationOperatingState
    from primaite.simulator.system.services.service import ServiceOperatingState

    with concrete():
        game = _game(kind)
        sim = game.simulation
        node = sim.network.get_node_by_hostname(node_name)
        paths = _paths(sim, node_name)
        log = []
        _wrap_leaves(sim._request_manager, log)
        sends = CallLog()
        for n in sim.network.nodes.values():
            for nic in n.network_interface.values():
                sends.wrap(nic, "send_frame", "send")
    SS = list(ServiceOperatingState)
    AS = list(ApplicationOperatingState)
    assume(all_of(rng(pi, 0, len(paths) - 1), rng(ns, 0, 3), rng(svc_state, 0, len(SS) - 1), rng(app_state, 0, len(AS) - 1)))
    if couple:  # quick tier: 6 (service, application) state pairs instead of the 18-element product
        assume(any_of(svc_state - app_state == 0, svc_state - app_state == 3))
    path, args = pick(paths, pi)
    L = len(path)
    assume(all_of(mut >= -1, mut <= 100 + L))
    mut = pick_int(mut, -1, 100 + L)
    assume(mut == -1 or 0 <= mut < L or 100 <= mut < 100 + L)
    st = pick(NODE_STATES, ns)
    fs = ["live", "file_deleted", "folder_deleted"][fstate]
    with concrete():
        # history: docs/a.txt, or the whole folder docs, was deleted earlier (the paths were listed before that, so
        # they include the routes of the components that are gone now)
        if fs == "file_deleted":
            node.file_system.delete_file(folder_name="docs", file_name="a.txt")
        elif fs == "folder_deleted":
            node.file_system.delete_folder(folder_name="docs")
        _set_node_state(node, st)
    sv = pick(SS, svc_state)
    av = pick(AS, app_state)
    for s in node.services.values():
        s.operating_state = sv
    for a in node.applications.values():
        a.operating_state = av
    if st == "ON":
        node.network_interface[1].enabled = nic_en
    request = list(path) + list(args)
    tail = tuple(request[3:])
    gone = False
    if "docs" in tail and "create" not in tail:
        if fs == "folder_deleted" and tail[:3] != ("file_system", "restore", "folder") and tail != ("file_system", "folder", "docs", "restore"):
            gone = True
        if fs == "file_deleted" and "a.txt" in tail and tail[:3] != ("file_system", "restore", "file") and tail[-1] != "restore":
            gone = True
    mutated = False
    if 0 <= mut < L:
        request[mut] = "no_such_" + str(request[mut])
        mutated = True
    elif mut >= 100:
        request = request[: mut - 100]
        mutated = True
    with concrete():
        before = snap(sim)
        sends.clear()
        del log[:]
    try:
        resp = sim.apply_request(request)
    except Exception as e:
        fail(f"apply_request({request}) raised {type(e).__name__}: {e}")
    reached = len(log) > 0
    check(resp is not None and resp.status in STATUSES, f"request {request} not answered with a documented status")
    if mutated:
        cover("mutated")
        check(not reached, f"mutated request {request} reached a handler")
        check(resp.status == "unreachable" or resp.status == "failure", f"mutated request {request} answered {resp.status}")
    if st != "ON" and not (len(request) == 4 and request[3] == "startup"):
        # a node that is not ON refuses every request except start-up (node-is-on permission rule on every route)
        check(not reached, f"request {request} reached its handler although the node is {st}")
    if len(request) == 4 and request[3] == "startup" and st != "OFF" and not mutated:
        # ... and start-up itself is only for a node that is OFF (node-is-off permission rule)
        check(not reached, f"the start-up request reached its handler although the node is {st}, not OFF")
        check(resp.status == "failure", lambda: f"the start-up request on a node that is {st} answered {resp.status}")
    if not reached:
        cover("not_reached")
        check(resp.status in ("unreachable", "failure"), f"request {request} did not reach its handler but answered {resp.status}")
        with concrete():
            after = snap(sim)
        check(before == after, f"request {request} was turned away ({resp.status}) but changed the simulation state")
        check(sends.count("send") == 0, f"request {request} was turned away but a frame was sent")
    else:
        cover("reached")
        check(resp.status != "unreachable", f"request {request} reached its handler but answered unreachable")
    if gone and not mutated:
        cover("deleted_target")
        what = "file" if fs == "file_deleted" else "folder"
        check(resp.status != "success", lambda: f"request {request} addresses a deleted {what} but answered success (node {st})")
        with concrete():
            after = snap(sim)
        check(before == after, lambda: f"request {request} addresses a deleted {what} but changed the simulation state (answer {resp.status})")


def actions_reach(ai: int, ns: int, svc_state: int, app_state: int, nic_en: bool, kind: str = "switched", couple: bool = False, fstate: int = 0):
    """Agent actions naming existing components are never 'unreachable' (whatever the power/software state); actions
    naming missing components never reach a handler."""
    from primaite.simulator.system.applications.application import ApplicationOperatingState
    from primaite.simulator.system.services.service import ServiceOperatingState

    with concrete():
        game = _game(kind)
        sim = game.simulation
        node = sim.network.get_node_by_hostname("client_1")
        agent = game.agents["defender"]
        amap = agent.action_manager.action_map
        n_actions = len(amap)
        log = []
        _wrap_leaves(sim._request_manager, log)
    SS = list(ServiceOperatingState)
    AS = list(ApplicationOperatingState)
    assume(all_of(rng(ai, 0, n_actions - 1), rng(ns, 0, 3), rng(svc_state, 0, len(SS) - 1), rng(app_state, 0, len(AS) - 1)))
    if couple:
        assume(any_of(svc_state - app_state == 0, svc_state - app_state == 3))
    ai = pick_int(ai, 0, n_actions - 1)
    name, opts = amap[ai]
    st = pick(NODE_STATES, ns)
    fs = ["live", "file_deleted", "folder_deleted"][fstate]
    with concrete():
        # history: the file docs/a.txt, or the whole folder docs, was deleted earlier in the episode (real API)
        if fs == "file_deleted":
            node.file_system.delete_file(folder_name="docs", file_name="a.txt")
        elif fs == "folder_deleted":
            node.file_system.delete_folder(folder_name="docs")
        _set_node_state(node, st)
    sv = pick(SS, svc_state)
    av = pick(AS, app_state)
    for s in node.services.values():
        s.operating_state = sv
    for a in node.applications.values():
        a.operating_state = av
    if st == "ON":
        node.network_interface[1].enabled = nic_en
    try:
        request = agent.action_manager.form_request(action_identifier=name, action_options=opts)
    except Exception as e:
        fail(f"form_request({name}) raised {type(e).__name__}: {e}")
    # a deleted file / a file or folder inside a deleted folder no longer exists: only the restore of exactly the
    # deleted item (and creation) addresses something that is there
    gone = False
    if opts.get("folder_name") == "docs" and "create" not in name:
        if fs == "folder_deleted" and name != "node-folder-restore":
            gone = True
        if fs == "file_deleted" and opts.get("file_name") == "a.txt" and name != "node-file-restore":
            gone = True
    if gone:
        cover("deleted_target")
        with concrete():
            before = snap(sim)
        try:
            resp = sim.apply_request(request)
        except Exception as e:
            fail(f"action {name} {opts}: apply_request({request}) raised {type(e).__name__}: {e}")
        check(resp is not None and resp.status in STATUSES, f"action {name}: undocumented status")
        check(resp.status != "success", lambda: f"action {name} {opts} addresses a deleted {'file' if fs == 'file_deleted' else 'folder'} but answered success (node {st})")
        with concrete():
            after = snap(sim)
        check(before == after, lambda: f"action {name} {opts} on a deleted {'file' if fs == 'file_deleted' else 'folder'} changed the state (answer {resp.status})")
        return
    missing = any(str(v).startswith("no") and ("such" in str(v) or str(v) in ("nofolder", "nofile")) for v in opts.values()) or opts.get("nic_num") in (7, 0)
    with concrete():
        before = snap(sim)
        del log[:]
    try:
        resp = sim.apply_request(request)
    except Exception as e:
        fail(f"action {name} {opts}: apply_request({request}) raised {type(e).__name__}: {e}")
    reached = len(log) > 0
    check(resp is not None and resp.status in STATUSES, f"action {name}: undocumented status")
    if missing:
        cover("missing_target")
        # (an unknown application TYPE is not a component of the tree: its install handler is reached and must refuse)
        check((not reached or name == "node-application-install") and resp.status in ("unreachable", "failure"), f"action {name} {opts} names a missing component but answered {resp.status}{' after reaching a handler' if reached else ''}")
        check(resp.status != "success", "action on a missing component succeeded")
        with concrete():
            after = snap(sim)
        check(before == after, f"action {name} on a missing component changed the state")
    elif name != "do-nothing" and not _depends_on_created(name, opts):
        cover("existing_target")
        check(resp.status != "unreachable", f"action {name} {opts} names existing components but was unreachable (node {st})")
        if not reached:
            check(resp.status == "failure", f"action {name} turned away with status {resp.status}")
            with concrete():
                after = snap(sim)
            check(before == after, f"action {name} was refused but changed the state")


NEWFILE_KINDS = ["forced_new", "forced_recreate", "plain_new", "copied", "copied_over"]
NEWFILE_VERBS = ["corrupt", "scan", "delete"]


def new_file_routes(ki: int, vi: int, ns: int):
    """Routes of files that come into being during the episode: a file created through the create request with
    force=True (a new name, or the name of a file deleted before), created without force, or produced by
    FileSystem.copy_file (what a database restore does; also over an existing name). A request that then names the live
    file is routed to THAT file: it is never 'unreachable' while the node is ON, it is answered success for the verbs that
    apply to a healthy live file, and its effect shows on the file it names and on no other file."""
    from primaite.simulator.file_system.file_system_item_abc import FileSystemItemHealthStatus as FH

    assume(all_of(rng(ki, 0, len(NEWFILE_KINDS) - 1), rng(vi, 0, len(NEWFILE_VERBS) - 1), rng(ns, 0, 1)))
    kind = pick(NEWFILE_KINDS, ki)
    verb = pick(NEWFILE_VERBS, vi)
    st = pick(["ON", "OFF"], ns)
    with concrete():
        game = _game("switched")
        sim = game.simulation
        node = sim.network.get_node_by_hostname("client_1")
        fs = node.file_system
        base = ["network", "node", "client_1", "file_system"]
        if kind == "forced_new":
            r = sim.apply_request(base + ["create", "file", "docs", "n.txt", True])
            folder, name = "docs", "n.txt"
        elif kind == "forced_recreate":
            fs.delete_file(folder_name="docs", file_name="a.txt")
            r = sim.apply_request(base + ["create", "file", "docs", "a.txt", True])
            folder, name = "docs", "a.txt"
        elif kind == "plain_new":
            r = sim.apply_request(base + ["create", "file", "docs", "n.txt", False])
            folder, name = "docs", "n.txt"
        elif kind == "copied":
            fs.copy_file(src_folder_name="docs", src_file_name="a.txt", dst_folder_name="backup")
            r = None
            folder, name = "backup", "a.txt"
        else:
            fs.create_file(file_name="a.txt", folder_name="backup")
            fs.delete_file(folder_name="backup", file_name="a.txt")
            fs.copy_file(src_folder_name="docs", src_file_name="a.txt", dst_folder_name="backup")
            r = None
            folder, name = "backup", "a.txt"
        if r is not None and r.status != "success":
            fail(f"harness history ({kind}): the create request answered {r.status}")
        target = fs.get_file(folder_name=folder, file_name=name)
        if target is None:
            fail(f"harness history ({kind}): {folder}/{name} does not exist afterwards")
        others = [f for F in list(fs.folders.values()) for f in list(F.files.values()) + list(F.deleted_files.values()) if f is not target]
        before_others = [(f.uuid, f.health_status.name, bool(f.deleted), f.num_access) for f in others]
        _set_node_state(node, st)
    request = base + (["delete", "file", folder, name] if verb == "delete" else ["folder", folder, "file", name, verb])
    try:
        resp = sim.apply_request(request)
    except Exception as e:
        fail(f"apply_request({request}) raised {type(e).__name__}: {e}")
    cover("new_file_request")
    check(resp is not None and resp.status in STATUSES, f"request {request} not answered with a documented status")
    if st != "ON":
        check(resp.status == "failure", lambda: f"request {request} on an OFF node answered {resp.status}")
        return
    check(resp.status != "unreachable", lambda: f"request {request} names the live file produced by '{kind}' but is unreachable")
    check(resp.status == "success", lambda: f"request {request} on the live, healthy file produced by '{kind}' answered {resp.status}: {str(resp.data)[:120]}")
    with concrete():
        after_others = [(f.uuid, f.health_status.name, bool(f.deleted), f.num_access) for f in others]
    check(before_others == after_others, lambda: f"request {request} changed ANOTHER file than the one it names ({kind}): {[b for b, a in zip(before_others, after_others) if a != b][:2]}")
    if verb == "corrupt":
        check(target.health_status == FH.CORRUPT, lambda: f"request {request} answered success but the named file is {target.health_status.name} ({kind})")
    elif verb == "delete":
        check(bool(target.deleted) and fs.get_file(folder_name=folder, file_name=name) is None, lambda: f"request {request} answered success but the named file is still live ({kind})")


RT_APPS = ["dos-bot", "ransomware-script", "c2-beacon", "c2-server", "nmap"]


def rt_routes(ai: int, pi: int, ns: int):
    """Routes added and removed at run time: an application is installed through the install request and uninstalled
    through the uninstall request; afterwards the node's request tree is exactly what it was before, and every path that
    existed only while the application was installed addresses a component that no longer exists: it is answered
    'unreachable' (never success) and changes nothing."""
    assume(all_of(rng(ai, 0, len(RT_APPS) - 1), rng(ns, 0, 1)))
    app = pick(RT_APPS, ai)
    with concrete():
        game = _game("switched")
        sim = game.simulation
        node = sim.network.get_node_by_hostname("client_1")
        base = ["network", "node", "client_1"]

        def paths():
            return sorted(tuple(p) for p in sim._request_manager.get_request_types_recursively() if len(p) >= 3 and p[2] == "client_1")

        if app == "nmap":  # pre-installed: remove it first so that the install request really installs
            sim.apply_request(base + ["software_manager", "application", "uninstall", "nmap"])
        p0 = paths()
        r = sim.apply_request(base + ["software_manager", "application", "install", app])
        if r.status != "success":
            fail(f"installing {app} through the request API answered {r.status}")
        p1 = paths()
        added = [p for p in p1 if p not in p0]
        check(len(added) > 0, f"installing {app} added no route")
        check(all(app in p for p in added), lambda: f"installing {app} added routes that do not name it: {[p for p in added if app not in p][:3]}")
        r = sim.apply_request(base + ["software_manager", "application", "uninstall", app])
        if r.status != "success":
            fail(f"uninstalling {app} through the request API answered {r.status}")
        p2 = paths()
    check(p2 == p0, lambda: f"after installing and uninstalling {app} the request tree differs from before: left over {[p for p in p2 if p not in p0][:3]}, lost {[p for p in p0 if p not in p2][:3]}")
    assume(rng(pi, 0, len(added) - 1))
    path = pick(added, pi)
    st = pick(["ON", "OFF"], ns)
    with concrete():
        _set_node_state(node, st)
        before = snap(sim)
    try:
        resp = sim.apply_request(list(path))
    except Exception as e:
        fail(f"apply_request({list(path)}) raised {type(e).__name__}: {e}")
    cover("stale_path")
    check(resp is not None and resp.status in STATUSES, "undocumented status")
    check(resp.status != "success", lambda: f"request {list(path)} addresses the uninstalled application {app} but answered success")
    check(resp.status in ("unreachable", "failure"), lambda: f"request {list(path)} on the uninstalled application {app} answered {resp.status}")
    with concrete():
        after = snap(sim)
    check(before == after, lambda: f"request {list(path)} on the uninstalled application {app} changed the simulation state")


TERM_REQS = ["send_remote_command", "node_session_remote_login", "send_local_command"]  # (logging off is not gated by the service state: the disconnect is delivered either way)


def svc_gate(ri: int, ts: int, hist: int):
    """Requests of a service whose own gate (the service must be RUNNING) sits inside the handler: the terminal of pc_a
    is put in every service operating state, after a history in which earlier terminal requests SUCCEEDED (so that a
    'last response' is stored). A request the terminal cannot carry out while not RUNNING is not answered success and
    changes nothing on either node."""
    from harness.c16_sessions import A_IP, B_IP, _build
    from primaite.simulator.system.services.service import ServiceOperatingState as SS

    assume(all_of(rng(ri, 0, len(TERM_REQS) - 1), rng(ts, 0, len(list(SS)) - 1), rng(hist, 0, 2)))
    req = pick(TERM_REQS, ri)
    state = pick(list(SS), ts)
    h = pick_int(hist, 0, 2)
    with concrete():
        sim, a, b = _build(0)
        base = ["network", "node", "pc_a", "service", "terminal"]
        # history: 0 = none, 1 = successful remote login, 2 = successful remote login + successful remote command
        if h >= 1:
            r = sim.apply_request(base + ["node_session_remote_login", "admin", "admin", B_IP])
            if r.status != "success":
                fail(f"harness history: remote login answered {r.status}")
        if h >= 2:
            r = sim.apply_request(base + ["send_remote_command", B_IP, {"command": ["file_system", "create", "folder", "first"]}])
            if r.status != "success":
                fail(f"harness history: remote command answered {r.status}")
    a.software_manager.software["terminal"].operating_state = state
    request = base + {
        "send_remote_command": ["send_remote_command", B_IP, {"command": ["file_system", "create", "folder", "second"]}],
        "node_session_remote_login": ["node_session_remote_login", "admin", "admin", B_IP],
        "send_local_command": ["send_local_command", "admin", "admin", {"command": ["file_system", "create", "folder", "second"]}],
    }[req]
    with concrete():
        before = (snap(a), snap(b))
    try:
        resp = sim.apply_request(request)
    except Exception as e:
        fail(f"apply_request({request}) raised {type(e).__name__}: {e}")
    check(resp is not None and resp.status in STATUSES, f"request {request} not answered with a documented status")
    if state.name != "RUNNING":
        cover("gate_closed")
        check(resp.status != "success", lambda: f"terminal request {req} answered success although the terminal is {state.name} (history {h}): {str(resp.data)[:120]}")
        with concrete():
            after = (snap(a), snap(b))
        if req == "send_remote_command":  # (a login attempt may still be delivered and authenticated by the target; a command is never sent)
            check(before[1] == after[1], lambda: f"terminal request {req} with the terminal {state.name} changed the state of the target node")
        # (the handler is reached, so bookkeeping on the requesting node - e.g. the local login of send_local_command -
        # may change; what must not happen is a reported success or an effect on the target)
    else:
        cover("gate_open")


def _depends_on_created(name, opts):
    # removing / configuring an application that the scenario does not install (dos-bot only exists after a run-time
    # install) addresses a missing component
    return (name == "node-application-remove" and opts.get("application_name") == "dos-bot") or name == "configure-dos-bot"


_N_PATHS_HINT = 130

HARNESSES = {
    "rm_kernel": {
        "fn": rm_kernel,
        "quick": [{"fixed": {}, "timeout": 500}],
        "thorough": [{"fixed": {}, "timeout": 600}],
        "cover": ["reached", "obstacle_unreachable", "obstacle_failure"],
        "bounds": "3-level tree; every combination of missing key / refusing validator / truncation (0..3 keys) / handler answer",
    },
    "live_tree": {
        "fn": live_tree,
        "quick": [{"fixed": {"kind": "switched", "ns": n, "mut": m, "couple": True}, "timeout": 280} for n in (0, 2) for m in (-1, 3, 4, 103)]
        + [{"fixed": {"kind": "switched", "ns": 0, "mut": m, "svc_state": 0, "app_state": 0}, "timeout": 280} for m in (104, 105, 106, 107)]
        + [{"fixed": {"kind": "switched", "ns": 0, "mut": -1, "svc_state": 0, "app_state": 0, "fstate": f}, "timeout": 280} for f in (1, 2)]
        + [{"fixed": {"kind": "switched", "ns": n, "mut": -1, "svc_state": 0, "app_state": 0}, "timeout": 280} for n in (1, 3)]  # SHUTTING_DOWN, BOOTING
        + [{"fixed": {"kind": "firewalled", "node_name": "firewall_1", "ns": n, "mut": m, "svc_state": 0, "app_state": 0}, "timeout": 280} for n, m in ((0, -1), (0, 3), (2, -1))]
        + [{"fixed": {"kind": "wireless", "node_name": "router_1", "ns": n, "mut": -1, "svc_state": 0, "app_state": 0}, "timeout": 280} for n in (0, 2)],
        # one job per (topology, power state, mutation): unmodified with the full 6x3 service/application product,
        # every misspelt position 0..8 and every truncation length 0..8 with the 6 coupled state pairs
        "thorough": [{"fixed": {"kind": k, "ns": n, "mut": -1}, "timeout": 1500} for k in ("switched", "routed") for n in range(4)]
        + [{"fixed": {"kind": k, "ns": n, "mut": m, "couple": True}, "timeout": 900} for k in ("switched", "routed") for n in range(4) for m in list(range(0, 9)) + list(range(100, 109))]
        + [{"fixed": {"kind": "firewalled", "node_name": "firewall_1", "ns": n, "couple": True}, "timeout": 1500} for n in range(4)]
        + [{"fixed": {"kind": "wireless", "node_name": "router_1", "ns": n, "couple": True}, "timeout": 1500} for n in range(4)]
        + [{"fixed": {"kind": "switched", "ns": n, "couple": True, "fstate": f}, "timeout": 1500} for n in (0, 2) for f in (1, 2)],
        "cover": ["reached", "not_reached", "deleted_target"],
        "bounds": {
            "quick": "all argument-free/templated leaf paths of client_1 (also of the firewall of the generated firewall-with-DMZ scenario and of a wireless router of the shipped wireless scenario); node ON/OFF (and the two transitional power states for the unmodified paths); unmodified, misspelt at depth 3/4, truncated to 3..7 elements; all service and application states",
            "thorough": "both topologies, all 4 power states, every mutation position and truncation length",
        },
    },
    "new_file_routes": {
        "fn": new_file_routes,
        "quick": [{"fixed": {}, "timeout": 280}],
        "thorough": [{"fixed": {}, "timeout": 600}],
        "cover": ["new_file_request"],
        "bounds": "5 ways a file comes into being during the episode (create request with / without force, forced re-creation of a deleted name, copy_file to a new name / over a deleted name) x 3 verbs (corrupt, scan, delete) x node ON / OFF",
    },
    "rt_routes": {
        "fn": rt_routes,
        "quick": [{"fixed": {}, "timeout": 280}],
        "thorough": [{"fixed": {}, "timeout": 600}],
        "cover": ["stale_path"],
        "bounds": "5 application types installed and uninstalled through the request API at run time; every path that existed only in between; node ON / OFF",
    },
    "svc_gate": {
        "fn": svc_gate,
        "quick": [{"fixed": {}, "timeout": 200}],
        "thorough": [{"fixed": {}, "timeout": 400}],
        "cover": ["gate_closed", "gate_open"],
        "bounds": "3 terminal requests (remote command, remote login, local command) x every ServiceOperatingState of the requesting node's terminal x 3 histories (none / successful login / successful login and command) on two connected real nodes",
    },
    "actions_reach": {
        "fn": actions_reach,
        "quick": [{"fixed": {"kind": "switched", "ns": n, "couple": True}, "timeout": 280} for n in range(4)]
        + [{"fixed": {"kind": "switched", "ns": 0, "svc_state": 0, "app_state": 0, "fstate": f}, "timeout": 280} for f in (1, 2)]
        + [{"fixed": {"kind": "firewalled", "ns": 0, "svc_state": 0, "app_state": 0}, "timeout": 280}],
        "thorough": [{"fixed": {"kind": k, "ns": n}, "timeout": 1200} for k in ("switched", "routed", "firewalled") for n in range(4)]
        + [{"fixed": {"kind": "switched", "ns": n, "couple": True, "fstate": f}, "timeout": 1200} for n in range(4) for f in (1, 2)],
        "cover": ["missing_target", "existing_target", "deleted_target"],
        "bounds": "every entry of the generated action map (66 entries switched, 79 routed incl. router port / ACL actions, 94 with a firewall incl. overwriting ACL actions; 7 name missing components) x 4 power states x all service/application states; with docs/a.txt deleted and with the folder docs deleted earlier in the episode (node ON in the quick tier)",
    },
}

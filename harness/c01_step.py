"""C01 – stepping/resetting the environment is total and keeps the episode contract (Engine S)."""
from __future__ import annotations

import copy
import math

from vlib.chdriver import all_of, assume, check, cover, fail, pick, pick_int, rng
from vlib.fixtures import concrete, mini_scenario, quiet, space_violations

SOURCES = [
    "/repo/src/primaite/session/environment.py",
    "/repo/src/primaite/game/game.py",
    "/repo/src/primaite/game/agent/interface.py",
    "/repo/src/primaite/simulator/core.py",
    "/repo/src/primaite/game/agent/actions/manager.py",
]
ENCODED = [
    "primaite.session.environment.PrimaiteGymEnv.__init__/step/reset/_get_obs",
    "primaite.game.game.PrimaiteGame.from_config/pre_timestep/apply_agent_actions/advance_timestep/update_agents/calculate_truncated",
    "primaite.game.agent.interface.AbstractAgent.process_action_response / ProxyAgent.store_action/get_action",
    "the whole simulator below Simulation.apply_request / apply_timestep for the generated scenarios",
    "PeriodicAgent / red-database-corrupting-agent get_action (seeded concretely by the scenario seed)",
]
ASSUMPTIONS = [
    "scenarios: generated mini-scenarios (switched LAN with 2 computers + server; host-router-server) with a BLUE proxy "
    "agent whose action map holds every host action type x the components of client_1, actions naming missing "
    "components and (routed) router ACL/port actions incl. out-of-range positions, a periodic GREEN agent and a RED "
    "database-corrupting agent; plus (thorough) the shipped scenario files listed in the job list",
    "symbolic: the action index of each of the k steps (whole action map), the episode length limit M, whether and "
    "when a mid-episode reset happens; scripted agents draw from the RNGs seeded by the scenario seed (concrete)",
    "logging stubbed, no output files (io_settings all off)",
]

STATUSES = ("success", "failure", "unreachable", "pending")


def _mk_env(kind: str, flatten: bool = False, scenario_file: str = "", busy: bool = False, save: bool = False):
    from primaite.session.environment import PrimaiteGymEnv

    quiet()
    if scenario_file:
        import yaml

        with open(scenario_file) as f:
            cfg = yaml.safe_load(f)
        cfg.setdefault("io_settings", {})
        for k in ("save_agent_actions", "save_step_metadata", "save_pcap_logs", "save_sys_logs", "save_agent_logs", "write_agent_log_to_terminal", "write_sys_log_to_terminal"):
            cfg["io_settings"][k] = False
        cfg.setdefault("game", {}).setdefault("seed", 3)
    else:
        cfg = mini_scenario(kind, flatten_obs=flatten, green_busy=busy, save_actions=save)
    return PrimaiteGymEnv(env_config=copy.deepcopy(cfg))


def check_step(env, action, steps_taken_before: int, M, label: str, check_obs: bool = True):
    """One env.step obeying the C01 contract (and, if check_obs, C02 membership). Returns the step result."""
    game = env.game
    sc0 = game.step_counter
    hist0 = {n: len(a.history) for n, a in game.agents.items()}
    tot0 = env.agent.reward_function.total_reward
    try:
        obs, reward, terminated, truncated, info = env.step(action)
    except Exception as e:
        fail(f"{label}: env.step({action}) [{env.agent.action_manager.action_map[action][0]}] raised {type(e).__name__}: {str(e)[:300]}")
    check(isinstance(reward, (int, float)) and not isinstance(reward, bool) and math.isfinite(reward), f"{label}: reward {reward!r} is not a finite number")
    check(terminated is False, f"{label}: terminated is {terminated!r}")
    want_trunc = (steps_taken_before + 1) >= M
    check(isinstance(truncated, bool), f"{label}: truncated is not a bool")
    check(truncated == want_trunc, lambda: f"{label}: truncated={truncated} after {steps_taken_before + 1} steps with limit {M}")
    check(game.step_counter == sc0 + 1, f"{label}: step_counter moved from {sc0} to {game.step_counter}")
    for n, a in game.agents.items():
        check(len(a.history) == hist0[n] + 1, f"{label}: agent {n} history grew by {len(a.history) - hist0[n]}")
        item = a.history[-1]
        check(item.response is not None and item.response.status in STATUSES, f"{label}: agent {n} response status {getattr(item.response, 'status', None)!r}")
        check(item.timestep == sc0, f"{label}: agent {n} recorded timestep {item.timestep}, expected {sc0}")
    aa = info.get("agent_actions") if isinstance(info, dict) else None
    check(aa is not None and set(aa.keys()) == set(game.agents.keys()), f"{label}: info['agent_actions'] does not list every agent")
    if check_obs:
        v = space_violations(env.observation_space, obs)
        check(not v, f"{label}: observation not in the declared space: {v[:3]}")
    return obs, reward


def check_reset(env, label: str, check_obs: bool = True):
    ep0 = env.episode_counter
    old_game = env.game
    try:
        with concrete():  # reset takes no symbolic input (the game is rebuilt from the concrete scenario dict)
            obs, info = env.reset()
    except Exception as e:
        fail(f"{label}: env.reset() raised {type(e).__name__}: {str(e)[:300]}")
    g = env.game
    check(g is not old_game, f"{label}: reset kept the old game object")
    check(g.step_counter == 0, f"{label}: step_counter {g.step_counter} after reset")
    check(env.episode_counter == ep0 + 1, f"{label}: episode_counter not incremented")
    for n, a in g.agents.items():
        check(len(a.history) == 0, f"{label}: agent {n} has history after reset")
        check(a.reward_function.total_reward == 0, f"{label}: agent {n} total_reward {a.reward_function.total_reward} after reset")
        check(a.reward_function.current_reward == 0, f"{label}: agent {n} current_reward {a.reward_function.current_reward} after reset")
    if check_obs:
        v = space_violations(env.observation_space, obs)
        check(not v, f"{label}: reset observation not in the declared space: {v[:3]}")
    return obs


def step_contract(a0: int, a1: int, a2: int, M: int, reset_at: int, k: int = 2, kind: str = "switched", scenario_file: str = "", check_obs: bool = False, busy: bool = False, save: bool = False):
    """k steps with solver-chosen actions and episode limit M; a reset after `reset_at` steps (0..k, k = none);
    one more step after the last one to confirm the contract keeps holding (incl. after truncation)."""
    with concrete():
        env = _mk_env(kind, scenario_file=scenario_file, busy=busy, save=save)
        n_actions = len(env.agent.action_manager.action_map)
    acts = [a0, a1, a2][:k]
    assume(all_of(rng(M, 1, k + 1), rng(reset_at, 0, k), *[rng(a, 0, n_actions - 1) for a in acts]))
    env.game.options.max_episode_length = M
    r_at = pick_int(reset_at, 0, k)
    taken = 0
    for i in range(k):
        if r_at == i:
            check_reset(env, f"reset before step {i}", check_obs)
            env.game.options.max_episode_length = M
            taken = 0
            cover("reset")
        a = pick_int(acts[i], 0, n_actions - 1)
        check_step(env, a, taken, M, f"step {i}", check_obs)
        taken += 1
    cover("steps_done")
    check_reset(env, "final reset", check_obs)
    env.game.options.max_episode_length = M
    check_step(env, 0, 0, M, "first step of the next episode", check_obs)


def scheduled_contract(which: int, n_resets: int):
    """Episode-scheduled scenario directories: reset stays total and keeps the contract over many consecutive
    episodes (the schedule wraps around several times), each followed by a step."""
    from primaite.session.environment import PrimaiteGymEnv
    from harness.c04_isolation import SCHEDULED

    assume(all_of(rng(which, 0, len(SCHEDULED) - 1), rng(n_resets, 1, 11)))
    path = pick(SCHEDULED, which)
    n = pick_int(n_resets, 1, 11)
    with concrete():
        quiet()
        try:
            env = PrimaiteGymEnv(env_config=path)
        except Exception as e:
            fail(f"constructing the environment for {path} raised {type(e).__name__}: {str(e)[:200]}")
        for k in range(1, n + 1):
            check_reset(env, f"{path.split('/')[-1]} episode {k}", check_obs=True)
            check_step(env, 0, 0, env.game.options.max_episode_length, f"{path.split('/')[-1]} episode {k} step 0", check_obs=True)
    cover("scheduled")


SHIPPED = [
    "/repo/src/primaite/config/_package_data/data_manipulation.yaml",
    "/repo/tests/assets/configs/basic_switched_network.yaml",
    "/repo/tests/assets/configs/test_primaite_session.yaml",
    "/repo/tests/assets/configs/firewall_actions_network.yaml",
    "/repo/tests/assets/configs/nodes_with_initial_files.yaml",
    "/repo/tests/assets/configs/action_penalty.yaml",
    "/repo/tests/assets/configs/software_fixing_duration.yaml",
    "/repo/tests/assets/configs/test_application_install.yaml",
    "/repo/tests/assets/configs/install_and_configure_apps.yaml",
]

from vlib.fixtures import mini_action_index as _ix

_IX_RM_DMB = _ix("switched", "node-application-remove", node_name="client_2", application_name="data-manipulation-bot")
_IX_INST_DOS = _ix("switched", "node-application-install", application_name="dos-bot")
_IX_RM_DOS = _ix("switched", "node-application-remove", application_name="dos-bot")

HARNESSES = {
    "scheduled_contract": {
        "fn": scheduled_contract,
        "quick": [{"fixed": {"which": w}, "timeout": 280} for w in range(3)],
        "thorough": [{"fixed": {"which": w}, "timeout": 900} for w in range(3)],
        "cover": ["scheduled"],
        "bounds": "the shipped episode-scheduled scenario directories, 1..11 consecutive episodes (the schedule wraps around up to 5 times), one step each",
    },
    "step_contract": {
        "fn": step_contract,
        "quick": [
            {"fixed": {"k": 1, "kind": "switched"}, "timeout": 280},
            {"fixed": {"k": 1, "kind": "routed"}, "timeout": 280},
            {"fixed": {"k": 1, "kind": "firewalled"}, "timeout": 400},
        ]
        + [{"fixed": {"k": 2, "kind": "switched", "a0": a, "reset_at": 2}, "timeout": 280} for a in (24, 37, 41, 39, 7, 44, 9, 22, 6)]
        # removing applications that share a (port, protocol) key with other software of the node, one after the other
        + [{"fixed": {"k": 2, "kind": "switched", "a0": _IX_RM_DMB, "reset_at": 2}, "timeout": 280}]
        + [{"fixed": {"k": 3, "kind": "switched", "a0": _IX_INST_DOS, "a1": _IX_RM_DOS, "reset_at": 3, "M": 4}, "timeout": 280}]
        # a GREEN agent that uses its application in every step, while the defender acts on it in the same step
        + [{"fixed": {"k": 2, "kind": "switched", "busy": True, "a0": 0, "reset_at": 2}, "timeout": 280}]
        # the default io setting save_agent_actions: every reset writes the episode's action log (after a run-time install)
        + [{"fixed": {"k": 2, "kind": "switched", "save": True, "a0": _IX_INST_DOS, "reset_at": 2}, "timeout": 280}],
        "thorough": [{"fixed": {"k": 2, "kind": kd, "a0": a}, "timeout": 1500} for kd in ("switched", "routed") for a in range(0, 62, 2)]
        + [{"fixed": {"k": 2, "kind": "firewalled", "a0": a}, "timeout": 1500} for a in range(1, 79, 6)]
        + [{"fixed": {"k": 1, "kind": "", "scenario_file": f}, "timeout": 1500} for f in SHIPPED],
        "cover": ["steps_done", "reset"],
        "bounds": {
            "quick": "k=1: every action x M in {1,2} x reset before/after, three topologies (switched, routed, firewall with DMZ); k=2: first action in {file delete, folder create, shutdown, nic disable, service disable, app install, service fix, application fix, service restart, removal of an application sharing its port key}, second action any, M in 1..3; k=3: install dos-bot, remove it, then any action",
            "thorough": "k=2 with every second action as first action on both topologies, M in 1..3, reset at 0/1/2; shipped scenario files with k=1 over their whole action map",
        },
    },
}

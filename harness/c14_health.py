"""C14 – visible health changes only by scanning; fixes, folder scans/restores and node scans take their set time.

Engine S on real nodes: every operation goes through ``Simulation.apply_request`` (the path agent actions take), time
passes through ``Simulation.pre_timestep`` + ``apply_timestep``.  After EVERY request and EVERY tick the (true, visible,
deleted) triple of every piece of software and every file on the node - and the visible health of every folder - is
compared with a shadow record (`World`) written from the property statement:

* visible health of software / a file changes only in a tick (or request) in which a scan covering it completes, and
  is then the item's true health at that moment;
* true health changes only on the explicit events compromise / corrupt / fix / repair / restore / start and on the
  timed completion of a fix or a folder restore;
* a successful fix completes after exactly ``fixing_duration`` ticks, a folder scan / restore after the folder's
  ``scan_duration`` / ``restore_duration`` ticks, a node scan after ``node_scan_duration`` ticks (duration 0: at the
  request or on the next tick).
"""
from __future__ import annotations

import importlib

from vlib.chdriver import all_of, assume, check, cover, fail, pick, rng
from vlib.fixtures import concrete, mk_host, new_sim, quiet

SOURCES = [
    "/repo/src/primaite/simulator/system/software.py",
    "/repo/src/primaite/simulator/system/services/service.py",
    "/repo/src/primaite/simulator/system/applications/application.py",
    "/repo/src/primaite/simulator/file_system/file.py",
    "/repo/src/primaite/simulator/file_system/folder.py",
    "/repo/src/primaite/simulator/file_system/file_system.py",
    "/repo/src/primaite/simulator/file_system/file_system_item_abc.py",
    "/repo/src/primaite/simulator/network/hardware/base.py",
    "/repo/src/primaite/simulator/system/services/database/database_service.py",
]
ENCODED = [
    "primaite.simulator.system.software.Software.scan/fix/_update_fix_status/set_health_state/apply_timestep + "
    "'compromise'/'fix'/'scan' request handlers",
    "primaite.simulator.system.services.service.Service._init_request_manager/start/stop/pause/resume/restart/"
    "disable/enable/apply_timestep",
    "primaite.simulator.system.applications.application.Application._init_request_manager/run/close/apply_timestep",
    "primaite.simulator.file_system.file.File.scan/repair/corrupt/restore/delete",
    "primaite.simulator.file_system.folder.Folder.scan/_scan_timestep/restore/_restoring_timestep/repair/corrupt/"
    "delete/restore_file/remove_file/remove_all_files/apply_timestep",
    "primaite.simulator.file_system.file_system.FileSystem request handlers (folder/file/delete/restore), "
    "scan/apply_timestep/delete_file/delete_folder/restore_file/restore_folder",
    "primaite.simulator.network.hardware.base.Node.scan/apply_timestep/pre_timestep/power_on/power_off/reset + "
    "_init_request_manager ('os','scan' / 'shutdown' / 'startup' / 'reset' / validators)",
    "primaite.simulator.core.RequestManager.__call__, Simulation/Network apply_request + pre_timestep/apply_timestep",
]
ASSUMPTIONS = [
    "SysLog/PacketCapture/AgentLog methods are stubbed to no-ops (log text never feeds behaviour)",
    "one server node without links; the software under test is installed with SoftwareManager.install, the file with "
    "FileSystem.create_file; attacks are the 'compromise' / 'corrupt' requests (network-borne attacks such as SQL "
    "DELETE/ENCRYPT or connection floods are not driven here)",
    "durations are >= 0; symbolic durations/countdowns range over 0..dmax (stated per job); longer sequences than "
    "n_ops are covered only by the inductive *_step harnesses",
    "inductive harnesses: the pre-state ranges over the representation invariant {software FIXING => "
    "_fixing_countdown in 1..fixing_duration (0 iff the duration is 0); not FIXING => _fixing_countdown None or any "
    "stale value; folder scan/restore countdown in -1..max(duration,1), a scan/restore is pending iff its countdown "
    ">= 1; node_scan_countdown in 0..max(node_scan_duration,1), pending iff >= 1; a deleted file sits in "
    "deleted_files, a deleted folder in deleted_folders with all its files deleted; node OFF => services STOPPED, "
    "applications CLOSED}; every member of SoftwareHealthState / FileSystemItemHealthStatus is a pre-state value of "
    "the true and the visible health (quick tier: the subsets named in the job bounds)",
    "where the statement is silent the oracle fixes ONE reading and records it here: (a) a timer advances only in "
    "ticks at whose end the node is ON, and a folder's timers only while the folder is not deleted; (b) a folder "
    "scan/restore request while one is already running is merged into the running one, a node-scan request while one "
    "is pending restarts it; (c) a compromise during a fix may either cancel the fix (software stays COMPROMISED "
    "until the next fix) or be wiped by the fix completing on time - both accepted; (d) when a scan and another "
    "timed completion (fix, restore) fall into the same tick the visible value may be the true health before or "
    "after that completion; (e) duration 0 completes at the request or on the next tick - both accepted",
    "folders: the statement constrains only the folder's VISIBLE health (changes only when a scan covering the folder "
    "completes; after a folder scan it is the folder's own true health or its worst live file's). The folder's own "
    "true health is not constrained (the code recomputes it from the files at every folder scan - recorded, not "
    "flagged), and a whole-node scan is allowed to leave the folder's visible health unchanged",
    "requests: a 'success' answer must have the effect stated above, a 'failure'/'unreachable' answer must change "
    "nothing; a scan of running software / a live file / a live folder on an ON node and a fix of COMPROMISED running "
    "software must not answer 'failure' ('unreachable' = the software offers no such request, e.g. NMAP, is accepted); "
    "an exception escaping a request or a tick is a violation (the timed completion did not happen)",
    "db_fix: the backup server is a second real node on the same link; the FTP transfer of the restore runs through "
    "the real network stack with concrete addresses",
    "node power state machine itself is property C12; here the real node's operating_state is read to decide whether "
    "a tick counts",
]

_MODS = {
    "dns-server": "primaite.simulator.system.services.dns.dns_server",
    "ntp-server": "primaite.simulator.system.services.ntp.ntp_server",
    "web-server": "primaite.simulator.system.services.web_server.web_server",
    "ftp-server": "primaite.simulator.system.services.ftp.ftp_server",
    "database-service": "primaite.simulator.system.services.database.database_service",
    "database-client": "primaite.simulator.system.applications.database_client",
    "data-manipulation-bot": "primaite.simulator.system.applications.red_applications.data_manipulation_bot",
    "dos-bot": "primaite.simulator.system.applications.red_applications.dos_bot",
    "ransomware-script": "primaite.simulator.system.applications.red_applications.ransomware_script",
    "c2-server": "primaite.simulator.system.applications.red_applications.c2.c2_server",
    "c2-beacon": "primaite.simulator.system.applications.red_applications.c2.c2_beacon",
    "ftp-client": "primaite.simulator.system.services.ftp.ftp_client",
}
HOST = "srv"
FOLDER = "fdr"
FILE = "f.txt"


def _enums():
    from primaite.simulator.file_system.file_system_item_abc import FileSystemItemHealthStatus as FH
    from primaite.simulator.system.software import SoftwareHealthState as SH

    return SH, FH


def _build(sw: str, with_file: bool = True, second_file: bool = False):
    """A powered-on server holding the software under test, a folder with one (or two) files."""
    from primaite.simulator.system.applications.application import Application
    from primaite.simulator.system.services.service import Service

    quiet()
    sim = new_sim()
    node = mk_host("server", HOST, "192.168.1.2", start_up_duration=0, shut_down_duration=0)
    node.power_on()
    sim.network.add_node(node)
    if sw not in node.software_manager.software:
        importlib.import_module(_MODS[sw])
        cls = Service._registry.get(sw) or Application._registry.get(sw)
        node.software_manager.install(cls)
    obj = node.software_manager.software[sw]
    kind = "service" if isinstance(obj, Service) else "application"
    if kind == "application":
        obj.run()
    if with_file:
        node.file_system.create_file(folder_name=FOLDER, file_name=FILE)
        if second_file:
            node.file_system.create_file(folder_name=FOLDER, file_name="g.txt")
    return sim, node, obj, kind


# ---------------------------------------------------------------------------------------------------------------------
# the shadow record (reference), written from the property statement
# ---------------------------------------------------------------------------------------------------------------------
class _Sw:
    def __init__(self, obj, SH):
        self.obj = obj
        self.name = obj.name
        self.actual = obj.health_state_actual
        self.visible = obj.health_state_visible
        c = obj._fixing_countdown
        # representation function: a fix is in progress iff the software is FIXING; it has max(c,1) ticks left
        if self.actual is SH.FIXING:
            self.rem = c if c >= 1 else 1
        else:
            self.rem = None
        self.intr = False  # compromised while the fix was running


class _File:
    def __init__(self, obj, deleted):
        self.obj = obj
        self.name = obj.name
        self.actual = obj.health_status
        self.visible = obj.visible_health_status
        self.deleted = deleted


class _Folder:
    def __init__(self, obj):
        self.obj = obj
        self.name = obj.name
        self.visible = obj.visible_health_status
        self.files = []
        seen = set()
        for f in obj.files.values():
            seen.add(f.uuid)
            self.files.append(_File(f, False))
        for f in obj.deleted_files.values():
            if f.uuid not in seen:
                self.files.append(_File(f, True))
        sc, rc = obj.scan_countdown, obj.restore_countdown
        self.srem = sc if sc >= 1 else None
        self.rrem = rc if rc >= 1 else None


class World:
    def __init__(self, sim, node):
        SH, FH = _enums()
        self.SH, self.FH = SH, FH
        self.sim, self.node, self.fs = sim, node, node.file_system
        self.t = 0
        self.sw = [_Sw(s, SH) for s in node.software_manager.software.values()]
        self.folders = [_Folder(f) for f in list(self.fs.folders.values()) + list(self.fs.deleted_folders.values())]
        nc = node.node_scan_countdown
        self.nrem = nc if nc >= 1 else None

    # -- helpers
    def on(self):
        return self.node.operating_state.name == "ON"

    def sw_ref(self, name):
        for s in self.sw:
            if s.name == name:
                return s
        raise KeyError(name)

    def folder_ref(self, name):
        for f in self.folders:
            if f.name == name:
                return f
        raise KeyError(name)

    def folder_live(self, fo):
        return (not fo.obj.deleted) and fo.obj.uuid in self.fs.folders

    def pending(self):
        if self.nrem is not None:
            return True
        for s in self.sw:
            if s.rem is not None:
                return True
        for fo in self.folders:
            if (fo.srem is not None or fo.rrem is not None) and self.folder_live(fo):
                return True
        return False

    def _file_healths(self, fo, post):
        """True health of the folder's live files (NONE stands for 'no live file')."""
        vals = [(f.obj.health_status if post else f.actual) for f in fo.files if not f.deleted]
        return vals or [self.FH.NONE]

    # -- frame: compare everything that no event touched
    def check_frame(self, what, skip_sw=(), skip_files=(), skip_folders=(), started=False):
        SH = self.SH
        for s in self.sw:
            if s in skip_sw:
                continue
            a, v = s.obj.health_state_actual, s.obj.health_state_visible
            if started and s.actual is SH.UNUSED and a is SH.GOOD:
                s.actual = a  # explicit event: software started
            check(a is s.actual, lambda: f"{what}: true health of {s.name} changed {s.actual.name}->{a.name} without an event")
            check(v is s.visible, lambda: f"{what}: visible health of {s.name} changed {s.visible.name}->{v.name} without a scan")
        for fo in self.folders:
            if fo not in skip_folders:
                v = fo.obj.visible_health_status
                check(v is fo.visible, lambda: f"{what}: visible health of folder {fo.name} changed {fo.visible.name}->{v.name} without a scan")
            for f in fo.files:
                if f in skip_files:
                    continue
                a, v = f.obj.health_status, f.obj.visible_health_status
                check(a is f.actual, lambda: f"{what}: true health of file {f.name} changed {f.actual.name}->{a.name} without an event")
                check(v is f.visible, lambda: f"{what}: visible health of file {f.name} changed {f.visible.name}->{v.name} without a scan")
                check(bool(f.obj.deleted) == f.deleted, lambda: f"{what}: deleted flag of file {f.name} changed without an event")

    # -- one tick of simulated time
    def tick(self):
        SH, FH = self.SH, self.FH
        was_on = self.on()
        self.t += 1
        try:
            self.sim.pre_timestep(self.t)
            self.sim.apply_timestep(self.t)
        except Exception as e:  # a timed completion must happen, not blow up the step
            fail(f"tick {self.t} raised {type(e).__name__}: {e}")
        on = self.on()
        started = on and not was_on
        node_due = False
        if on and self.nrem is not None:
            self.nrem -= 1
            if self.nrem <= 0:
                node_due = True
                self.nrem = None
                cover("node_scan_done")
        for s in self.sw:
            pre = s.actual
            allowed = [pre]
            if on and s.rem is not None:
                s.rem -= 1
                if s.rem <= 0:
                    allowed = [SH.GOOD, pre] if s.intr else [SH.GOOD]
                    s.rem, s.intr = None, False
                    cover("fix_done")
            if started and pre is SH.UNUSED:
                allowed = allowed + [SH.GOOD]
            a, v = s.obj.health_state_actual, s.obj.health_state_visible
            check(a in allowed, lambda: f"tick {self.t}: true health of {s.name} is {a.name}, expected {[x.name for x in allowed]} (was {pre.name})")
            s.actual = a
            if a is SH.FIXING and s.rem is None:
                fail(f"tick {self.t}: {s.name} is FIXING although no fix is running")
            if node_due:
                check(v is pre or v is a, lambda: f"tick {self.t}: node scan completed but visible health of {s.name} is {v.name}, true health {pre.name}->{a.name}")
                s.visible = v
            else:
                check(v is s.visible, lambda: f"tick {self.t}: visible health of {s.name} changed {s.visible.name}->{v.name} although no scan covering it completed")
        for fo in self.folders:
            live = self.folder_live(fo)
            act = on and live
            scan_due = restore_due = False
            if act and fo.srem is not None:
                fo.srem -= 1
                if fo.srem <= 0:
                    scan_due, fo.srem = True, None
                    cover("folder_scan_done")
            if act and fo.rrem is not None:
                fo.rrem -= 1
                if fo.rrem <= 0:
                    restore_due, fo.rrem = True, None
                    cover("folder_restore_done")
            files_pre = self._file_healths(fo, False)
            for f in fo.files:
                pre, pre_del = f.actual, f.deleted
                allowed = [pre]
                if restore_due:
                    if pre is FH.CORRUPT and not pre_del:
                        allowed = [FH.GOOD]
                    else:
                        allowed = [pre, FH.GOOD]
                    f.deleted = False
                a, v = f.obj.health_status, f.obj.visible_health_status
                check(a in allowed, lambda: f"tick {self.t}: true health of file {f.name} is {a.name}, expected {[x.name for x in allowed]} (was {pre.name})")
                check(bool(f.obj.deleted) == f.deleted, lambda: f"tick {self.t}: file {f.name} deleted={f.obj.deleted}, expected {f.deleted}")
                f.actual = a
                covered = (scan_due or (node_due and act)) and not pre_del
                if covered:
                    check(v is pre or v is a, lambda: f"tick {self.t}: scan completed but visible health of file {f.name} is {v.name}, true health {pre.name}->{a.name}")
                elif (scan_due or (node_due and act)) and restore_due:
                    check(v is f.visible or v is pre or v is a, lambda: f"tick {self.t}: visible health of file {f.name} is {v.name}, neither the old value nor the true health")
                else:
                    check(v is f.visible, lambda: f"tick {self.t}: visible health of file {f.name} changed {f.visible.name}->{v.name} although no scan covering it completed")
                f.visible = v
            v = fo.obj.visible_health_status
            if scan_due or (node_due and act):
                ok_vals = files_pre + self._file_healths(fo, True) + [fo.obj.health_status]
                if not scan_due:
                    ok_vals.append(fo.visible)
                check(v in ok_vals, lambda: f"tick {self.t}: scan completed but visible health of folder {fo.name} is {v.name}, expected one of {[x.name for x in ok_vals]}")
            else:
                check(v is fo.visible, lambda: f"tick {self.t}: visible health of folder {fo.name} changed {fo.visible.name}->{v.name} although no scan of it completed")
            fo.visible = v

    # -- requests
    def request(self, tail):
        try:
            resp = self.sim.apply_request(["network", "node", HOST] + tail)
        except Exception as e:
            fail(f"request {tail} raised {type(e).__name__}: {e}")
        check(resp.status in ("success", "failure", "unreachable"), lambda: f"request {tail} answered {resp.status}")
        self.last_status = resp.status
        return resp.status == "success"

    def sw_op(self, kind, name, verb, d):
        SH = self.SH
        s = self.sw_ref(name)
        running = s.obj.operating_state.name == "RUNNING"
        on = self.on()
        ok = self.request([kind, name, verb])
        what = f"{verb} {name} ({'ok' if ok else 'refused'})"
        if not ok:
            # 'unreachable' = this software does not offer the request at all (NMAP): nothing to demand
            if self.last_status == "failure" and verb == "scan" and on and running:
                fail(f"scan of running {name} on an ON node refused")
            if self.last_status == "failure" and verb == "fix" and on and running and s.actual is SH.COMPROMISED:
                fail(f"fix of compromised running {name} on an ON node refused")
            self.check_frame(what)
            return
        a, v = s.obj.health_state_actual, s.obj.health_state_visible
        if verb == "compromise":
            check(a is SH.COMPROMISED, lambda: f"{what}: true health is {a.name}")
            check(v is s.visible, lambda: f"{what}: visible health changed {s.visible.name}->{v.name}")
            if s.rem is not None:
                s.intr = True
            s.actual = a
            cover("compromised")
        elif verb == "fix":
            check(v is s.visible, lambda: f"{what}: visible health changed {s.visible.name}->{v.name}")
            if a is SH.GOOD and d == 0:
                s.rem, s.intr = None, False  # zero duration completed at the request
            else:
                check(a is SH.FIXING, lambda: f"{what}: true health is {a.name}, expected FIXING")
                s.rem, s.intr = (d if d >= 1 else 1), False
            s.actual = a
            cover("fix_started")
        elif verb == "scan":
            check(a is s.actual, lambda: f"{what}: true health changed {s.actual.name}->{a.name}")
            check(v is a, lambda: f"{what}: visible health is {v.name}, true health {a.name}")
            s.visible = v
            cover("sw_scanned")
        else:  # operating-state requests: start/stop/pause/resume/restart/disable/enable/close
            if not (s.actual is SH.UNUSED and a is SH.GOOD and verb in ("start", "enable", "resume")):
                check(a is s.actual, lambda: f"{what}: true health changed {s.actual.name}->{a.name}")
            check(v is s.visible, lambda: f"{what}: visible health changed {s.visible.name}->{v.name}")
            s.actual = a
        self.check_frame(what, skip_sw=(s,))

    def node_op(self, verb, nd):
        on = self.on()
        if verb == "os_scan":
            ok = self.request(["os", "scan"])
            what = f"node scan request ({'ok' if ok else 'refused'})"
            if not ok:
                check(not on, "node scan request refused on an ON node")
                self.check_frame(what)
                return
            cover("node_scan_started")
            if nd == 0 and self._instant_node_scan():
                self.nrem = None
                return
            self.nrem = nd if nd >= 1 else 1
            self.check_frame(what)
        elif verb == "power_cycle":  # power loss in the middle of whatever is running, then power back
            ok = self.request(["shutdown"])
            self.check_frame(f"shutdown ({'ok' if ok else 'refused'})", started=True)
            n = 0
            while n < 4 and self.node.operating_state.name == "SHUTTING_DOWN":
                self.tick()
                n += 1
            if self.node.operating_state.name == "OFF":
                self.tick()  # a tick with the node off: nothing may move
                ok = self.request(["startup"])
                check(ok, "startup of an OFF node refused")
                self.check_frame("startup (ok)", started=True)
            n = 0
            while n < 4 and self.node.operating_state.name == "BOOTING":
                self.tick()
                n += 1
            check(self.on(), "node did not come back ON (harness bound too small)")
            cover("power_cycled")
        else:  # shutdown / startup / reset: power events never touch health, except that starting software sets UNUSED->GOOD
            ok = self.request([verb])
            self.check_frame(f"{verb} ({'ok' if ok else 'refused'})", started=True)

    def _instant_node_scan(self):
        changed = False
        for s in self.sw:
            if s.obj.health_state_visible is not s.visible:
                changed = True
        for fo in self.folders:
            for f in fo.files:
                if f.obj.visible_health_status is not f.visible:
                    changed = True
        if not changed:
            return False
        for s in self.sw:
            check(s.obj.health_state_actual is s.actual and s.obj.health_state_visible is s.actual, lambda: f"instant node scan: {s.name} not scanned")
            s.visible = s.actual
        for fo in self.folders:
            for f in fo.files:
                check(f.obj.health_status is f.actual, "instant node scan changed a file's true health")
                if self.folder_live(fo) and not f.deleted:
                    check(f.obj.visible_health_status is f.actual, lambda: f"instant node scan: file {f.name} not scanned")
                else:
                    check(f.obj.visible_health_status is f.visible, lambda: f"instant node scan touched deleted file {f.name}")
                f.visible = f.obj.visible_health_status
            fo.visible = fo.obj.visible_health_status
        return True

    def file_op(self, fname, verb):
        FH = self.FH
        fo = self.folder_ref(FOLDER)
        f = None
        for x in fo.files:
            if x.name == fname:
                f = x
        live = self.on() and self.folder_live(fo) and not f.deleted
        if verb in ("scan", "corrupt", "repair", "restore"):
            ok = self.request(["file_system", "folder", FOLDER, "file", fname, verb])
        elif verb == "fs_delete":
            ok = self.request(["file_system", "delete", "file", FOLDER, fname])
        else:  # fs_restore
            ok = self.request(["file_system", "restore", "file", FOLDER, fname])
        what = f"file {verb} ({'ok' if ok else 'refused'})"
        if not ok:
            if verb == "scan" and live:
                fail("scan of a live file in a live folder on an ON node refused")
            self.check_frame(what)
            return
        a, v, dl = f.obj.health_status, f.obj.visible_health_status, bool(f.obj.deleted)
        if verb == "scan":
            check(not f.deleted, lambda: f"{what}: a deleted file was scanned")
            check(a is f.actual and dl == f.deleted, lambda: f"{what}: true health / deleted flag changed")
            check(v is a, lambda: f"{what}: visible health is {v.name}, true health {a.name}")
            cover("file_scanned")
        else:
            check(v is f.visible, lambda: f"{what}: visible health changed {f.visible.name}->{v.name} without a scan")
            if verb == "corrupt":
                check(dl == f.deleted, lambda: f"{what}: deleted flag changed")
                if f.actual is FH.GOOD:
                    check(a is FH.CORRUPT, lambda: f"{what}: true health is {a.name}")
                else:
                    check(a is f.actual or a is FH.CORRUPT, lambda: f"{what}: true health {f.actual.name}->{a.name}")
                cover("file_corrupted")
            elif verb in ("repair", "restore", "fs_restore"):
                if verb == "repair":
                    check(dl == f.deleted, lambda: f"{what}: deleted flag changed")
                else:
                    check(not dl, lambda: f"{what}: file still deleted")
                if f.actual is FH.CORRUPT and not f.deleted:
                    check(a is FH.GOOD, lambda: f"{what}: true health is {a.name}")
                else:
                    check(a is f.actual or a is FH.GOOD, lambda: f"{what}: true health {f.actual.name}->{a.name}")
            elif verb == "fs_delete":
                check(dl, lambda: f"{what}: file not deleted")
                check(a is f.actual, lambda: f"{what}: true health changed {f.actual.name}->{a.name}")
        f.actual, f.visible, f.deleted = a, v, dl
        self.check_frame(what, skip_files=(f,))

    def folder_op(self, verb, sd, rd):
        FH = self.FH
        fo = self.folder_ref(FOLDER)
        live = self.on() and self.folder_live(fo)
        if verb in ("scan", "corrupt", "repair"):
            ok = self.request(["file_system", "folder", FOLDER, verb])
        elif verb == "fs_delete":
            ok = self.request(["file_system", "delete", "folder", FOLDER])
        else:  # fs_restore
            ok = self.request(["file_system", "restore", "folder", FOLDER])
        what = f"folder {verb} ({'ok' if ok else 'refused'})"
        if not ok:
            if verb == "scan" and live:
                fail("scan of a live folder on an ON node refused")
            self.check_frame(what)
            return
        if verb == "scan":
            cover("folder_scan_started")
            if fo.srem is None:
                inst = False
                if sd == 0:
                    for f in fo.files:
                        if f.obj.visible_health_status is not f.visible:
                            inst = True
                if inst:  # zero duration completed at the request
                    for f in fo.files:
                        if not f.deleted:
                            check(f.obj.visible_health_status is f.actual, lambda: f"{what}: file {f.name} not scanned")
                            f.visible = f.actual
                    fo.visible = fo.obj.visible_health_status
                else:
                    fo.srem = sd if sd >= 1 else 1
            self.check_frame(what)
        elif verb == "fs_restore":
            cover("folder_restore_started")
            if fo.rrem is None:
                inst = False
                if rd == 0:
                    for f in fo.files:
                        if bool(f.obj.deleted) != f.deleted or f.obj.health_status is not f.actual:
                            inst = True
                if inst:
                    for f in fo.files:
                        a = f.obj.health_status
                        check(not f.obj.deleted, lambda: f"{what}: file {f.name} still deleted")
                        if f.actual is FH.CORRUPT and not f.deleted:
                            check(a is FH.GOOD, lambda: f"{what}: file {f.name} still {a.name}")
                        else:
                            check(a is f.actual or a is FH.GOOD, lambda: f"{what}: file {f.name} {f.actual.name}->{a.name}")
                        f.actual, f.deleted = a, False
                else:
                    fo.rrem = rd if rd >= 1 else 1
            self.check_frame(what)
        elif verb == "fs_delete":
            for f in fo.files:
                check(bool(f.obj.deleted), lambda: f"{what}: file {f.name} of the deleted folder is not deleted")
                f.deleted = True
            self.check_frame(what)
        else:  # corrupt / repair: every live file
            for f in fo.files:
                a = f.obj.health_status
                if f.deleted:
                    continue
                if verb == "corrupt":
                    if f.actual is FH.GOOD:
                        check(a is FH.CORRUPT, lambda: f"{what}: file {f.name} is {a.name}")
                    else:
                        check(a is f.actual or a is FH.CORRUPT, lambda: f"{what}: file {f.name} {f.actual.name}->{a.name}")
                else:
                    if f.actual is FH.CORRUPT:
                        check(a is FH.GOOD, lambda: f"{what}: file {f.name} is {a.name}")
                    else:
                        check(a is f.actual or a is FH.GOOD, lambda: f"{what}: file {f.name} {f.actual.name}->{a.name}")
                f.actual = a
            self.check_frame(what)

    def settle(self, bound):
        """Let running timers run out, tick by tick against the reference (only ticks that count)."""
        n = 0
        while n < bound and self.pending() and self.on():
            self.tick()
            n += 1
        if self.on():
            check(not self.pending(), "reference timers did not run out (harness bound too small)")
            cover("settled")


# ---------------------------------------------------------------------------------------------------------------------
# operations
# ---------------------------------------------------------------------------------------------------------------------
SW_OPS = ["tick", "compromise", "fix", "scan", "os_scan", "shutdown", "startup", "reset", "stop", "start", "pause",
          "resume", "restart", "disable", "enable", "power_cycle"]
APP_OPS = ["tick", "compromise", "fix", "scan", "os_scan", "shutdown", "startup", "reset", "close", "power_cycle"]
FS_OPS = ["tick", "file_scan", "file_corrupt", "file_repair", "file_restore", "file_fs_delete", "file_fs_restore",
          "folder_scan", "folder_corrupt", "folder_repair", "folder_fs_delete", "folder_fs_restore", "os_scan",
          "shutdown", "startup", "power_cycle"]
RUN_OPS = ["tick", "compromise", "fix", "scan", "os_scan", "shutdown", "startup", "file_scan", "file_corrupt",
           "file_repair", "file_fs_delete", "file_fs_restore", "folder_scan", "folder_corrupt", "folder_repair",
           "folder_fs_delete", "folder_fs_restore", "stop", "start", "power_cycle"]


def _do(w: World, op: str, kind: str, sw: str, d, sd, rd, nd):
    if op == "tick":
        w.tick()
    elif op in ("os_scan", "shutdown", "startup", "reset", "power_cycle"):
        w.node_op(op, nd)
    elif op.startswith("file_"):
        w.file_op(FILE, op[5:])
    elif op.startswith("folder_"):
        w.folder_op(op[7:], sd, rd)
    else:
        w.sw_op(kind, sw, op, d)


def _power_off(node):
    node.config.shut_down_duration = 0
    node.power_off()
    check(node.operating_state.name == "OFF", "harness could not switch the node off")


# ---------------------------------------------------------------------------------------------------------------------
# harnesses
# ---------------------------------------------------------------------------------------------------------------------
def sw_step(
    a0: int, v0: int, d: int, c0: int, nd: int, nc0: int, off: bool, os0: int, op: int,
    sw: str = "dns-server", dmax: int = 2, vis: str = "all", pdur: int = 0,
):
    """Inductive step for one piece of software: arbitrary (true, visible, fix countdown, node-scan countdown,
    operating state, node power) satisfying the invariant, ONE operation, then ticks until the timers ran out."""
    SH, _ = _enums()
    vlist = list(SH) if vis == "all" else [SH.UNUSED, SH.GOOD, SH.COMPROMISED]
    assume(all_of(rng(a0, 0, 4), rng(v0, 0, len(vlist) - 1), rng(d, 0, dmax), rng(c0, -1, dmax), rng(nd, 0, dmax),
                  rng(nc0, 0, dmax), rng(os0, 0, 3)))
    with concrete():
        sim, node, obj, kind = _build(sw, with_file=True)
    ops = SW_OPS if kind == "service" else APP_OPS
    opname = pick(ops, op)
    actual = pick(list(SH), a0)
    visible = pick(vlist, v0)
    if actual is SH.FIXING:
        assume(all_of(c0 >= 0, c0 <= d, (c0 >= 1) == (d >= 1)))
    assume(nc0 <= (nd if nd >= 1 else 1))
    if kind == "service":
        ostate = pick(["RUNNING", "STOPPED", "PAUSED", "DISABLED"], os0)
    else:
        assume(os0 <= 1)
        ostate = pick(["RUNNING", "CLOSED"], os0)
    if off:
        assume(ostate in ("STOPPED", "DISABLED", "CLOSED"))
        with concrete():
            _power_off(node)
    with concrete():
        obj.operating_state = type(obj.operating_state)[ostate]
    obj.config.fixing_duration = d
    obj.health_state_actual = actual
    obj.health_state_visible = visible
    obj._fixing_countdown = None if c0 < 0 else c0
    node.config.node_scan_duration = nd
    node.node_scan_countdown = nc0
    node.config.shut_down_duration = node.config.start_up_duration = pdur
    w = World(sim, node)
    _do(w, opname, kind, sw, d, 3, 3, nd)
    w.settle(dmax + 1)
    cover("done")


def fs_step(
    fa0: int, fv0: int, dv0: int, da0: int, mode: int, sd: int, sc0: int, rd: int, rc0: int, nd: int, nc0: int,
    off: bool, op: int, g_bad: bool, dmax: int = 2, vals: str = "all", timers: str = "all", idle: str = "both",
    offmodes: str = "all", pdur: int = 0, nfiles: int = 1,
):
    """Inductive step for a file in a folder: arbitrary true/visible health of file and folder, file live / deleted /
    folder deleted, arbitrary scan / restore / node-scan countdowns, ONE operation, then ticks until timers ran out."""
    _, FH = _enums()
    if vals == "all":
        fal = fvl = dvl = dal = list(FH)
    elif vals == "wide":
        fal = list(FH)
        dal = [FH.GOOD, FH.RESTORING, FH.CORRUPT]
        fvl = [FH.NONE, FH.CORRUPT, FH.GOOD]
        dvl = [FH.NONE, FH.GOOD, FH.CORRUPT]
    elif vals == "diag":  # every member of the enum once in each of the four fields, chosen by ONE index
        m = list(FH)
        fal, fvl, dvl, dal = m, m[3:] + m[:3], m[5:] + m[:5], m[2:] + m[:2]
    else:
        fal = [FH.GOOD, FH.CORRUPT, FH.COMPROMISED]
        fvl = [FH.NONE, FH.CORRUPT]
        dvl = [FH.NONE, FH.GOOD]
        dal = [FH.GOOD, FH.RESTORING]
    assume(all_of(rng(fa0, 0, len(fal) - 1), rng(fv0, 0, len(fvl) - 1), rng(dv0, 0, len(dvl) - 1),
                  rng(da0, 0, len(dal) - 1), rng(mode, 0, 2), rng(sd, 0, dmax), rng(rd, 0, dmax), rng(nd, 0, dmax),
                  rng(sc0, -1, dmax), rng(rc0, -1, dmax), rng(nc0, 0, dmax), rng(op, 0, len(FS_OPS) - 1),
                  sc0 <= (sd if sd >= 1 else 1), rc0 <= (rd if rd >= 1 else 1), nc0 <= (nd if nd >= 1 else 1)))
    if timers == "one":  # at most one timer pending in the pre-state (the operation may start a second one)
        assume(all_of((sc0 < 1) or (rc0 < 1), (sc0 < 1) or (nc0 < 1), (rc0 < 1) or (nc0 < 1)))
    if vals in ("some", "wide"):  # the two visible values are chosen together, e.g. (NONE, NONE) or (CORRUPT, GOOD)
        assume(dv0 == fv0)
    if vals == "diag":
        assume(all_of(fv0 == fa0, dv0 == fa0, da0 == fa0))
    if idle == "neg":  # an idle folder countdown is represented by -1 only (its value after the first tick), not by 0
        assume(all_of(sc0 != 0, rc0 != 0))
    if offmodes == "live":  # a powered-off node only with the live file
        assume((not off) or mode == 0)
    with concrete():
        sim, node, obj, kind = _build("dns-client", with_file=True, second_file=(nfiles == 2))
        fs = node.file_system
        folder = fs.get_folder(FOLDER)
        file = folder.get_file(FILE)
        other = folder.get_file("g.txt")
    if other is not None and g_bad:  # the second file (never addressed directly) is GOOD or CORRUPT
        other.health_status = FH.CORRUPT
    opname = pick(FS_OPS, op)
    fa, fv, dv, da = pick(fal, fa0), pick(fvl, fv0), pick(dvl, dv0), pick(dal, da0)
    mode_c = pick([0, 1, 2], mode)
    with concrete():
        if mode_c == 1:
            check(fs.delete_file(FOLDER, FILE), "harness could not delete the file")
        elif mode_c == 2:
            check(fs.delete_folder(FOLDER), "harness could not delete the folder")
    if off:
        with concrete():
            _power_off(node)
    file.health_status, file.visible_health_status = fa, fv
    folder.health_status, folder.visible_health_status = da, dv
    folder.scan_duration, folder.scan_countdown = sd, sc0
    folder.restore_duration, folder.restore_countdown = rd, rc0
    node.config.node_scan_duration, node.node_scan_countdown = nd, nc0
    node.config.shut_down_duration = node.config.start_up_duration = pdur
    w = World(sim, node)
    _do(w, opname, "service", "dns-client", 2, sd, rd, nd)
    w.settle(dmax + 1)
    cover("done")


def health_run(
    d: int, sd: int, rd: int, nd: int, op0: int, op1: int, op2: int, op3: int, op4: int,
    n_ops: int = 2, dmax: int = 2, sw: str = "dns-server", pdur: int = 0,
):
    """n_ops operations from the real initial state (software GOOD/unscanned, file GOOD/unscanned), symbolic
    durations, then ticks until every timer ran out."""
    ops = [op0, op1, op2, op3, op4][:n_ops]
    assume(all_of(rng(d, 0, dmax), rng(sd, 0, dmax), rng(rd, 0, dmax), rng(nd, 0, dmax),
                  *[rng(o, 0, len(RUN_OPS) - 1) for o in ops]))
    with concrete():
        sim, node, obj, kind = _build(sw, with_file=True)
        folder = node.file_system.get_folder(FOLDER)
    obj.config.fixing_duration = d
    folder.scan_duration, folder.restore_duration = sd, rd
    node.config.node_scan_duration = nd
    node.config.shut_down_duration = node.config.start_up_duration = pdur
    w = World(sim, node)
    for o in ops:
        opname = pick(RUN_OPS, o)
        if kind == "application" and opname in ("stop", "start"):
            opname = "close"
        _do(w, opname, kind, sw, d, sd, rd, nd)
    w.settle(dmax + 1)
    cover("done")


def _build_db():
    """Database server 'srv' with a configured backup server 'bak' (FTP) on the same LAN; one backup already taken."""
    from ipaddress import IPv4Address

    quiet()
    sim = new_sim()
    a = mk_host("server", HOST, "192.168.1.2", start_up_duration=0, shut_down_duration=0)
    b = mk_host("server", "bak", "192.168.1.3", start_up_duration=0, shut_down_duration=0)
    for n in (a, b):
        n.power_on()
        sim.network.add_node(n)
    sim.network.connect(a.network_interface[1], b.network_interface[1])
    importlib.import_module(_MODS["database-service"])
    importlib.import_module(_MODS["ftp-server"])
    from primaite.simulator.system.services.service import Service

    a.software_manager.install(Service._registry["database-service"])
    b.software_manager.install(Service._registry["ftp-server"])
    db = a.software_manager.software["database-service"]
    db.configure_backup(IPv4Address("192.168.1.3"))
    check(db.backup_database(), "harness could not take the initial database backup")
    return sim, a, db


def db_fix(fa0: int, fv0: int, fdel: bool, comp: bool, v0: int, d: int, late: bool, dmax: int = 2):
    """DatabaseService: a fix ends with a restore of the database file from the backup server (the file object is
    replaced). Through compromise -> fix -> d ticks: the service follows the fix timing, and the visible health of
    the file at database/database.db (and of the service) never changes, since nothing was scanned; the file's true
    health changes at most in the tick in which the fix (restore) completes."""
    SH, FH = _enums()
    assume(all_of(rng(fa0, 0, 5), rng(fv0, 0, 5), rng(v0, 0, 2), rng(d, 0, dmax)))
    with concrete():
        sim, node, db = _build_db()
        fs = node.file_system
        f0 = db.db_file
    fa, fv = pick(list(FH), fa0), pick(list(FH), fv0)
    vis = pick([SH.UNUSED, SH.GOOD, SH.COMPROMISED], v0)
    f0.health_status, f0.visible_health_status = fa, fv
    db.config.fixing_duration = d
    db.health_state_visible = vis
    if fdel:
        with concrete():
            check(fs.delete_file("database", "database.db"), "harness could not delete the database file")
    others = [s for s in node.software_manager.software.values() if s is not db]
    other_state = [(s.health_state_actual, s.health_state_visible) for s in others]

    def path_file():
        return fs.get_file("database", "database.db")

    def observe(what, may_restore):
        cur = path_file()
        check(db.health_state_visible is vis, lambda: f"{what}: visible health of the database service changed {vis.name}->{db.health_state_visible.name} without a scan")
        check(f0.visible_health_status is fv, lambda: f"{what}: visible health of the original database file changed without a scan")
        if cur is not None:
            v = cur.visible_health_status
            check(v is fv, lambda: f"{what}: visible health of database/database.db changed {fv.name}->{v.name} without a scan")
            if not may_restore:
                check(cur is f0 and cur.health_status is fa, lambda: f"{what}: true health of database/database.db changed {fa.name}->{cur.health_status.name} without an event")
        else:
            check(fdel, lambda: f"{what}: database/database.db disappeared")
            check(f0.health_status is fa, lambda: f"{what}: true health of the deleted database file changed")
        for s, (a, v) in zip(others, other_state):
            check(s.health_state_actual is a and s.health_state_visible is v, lambda: f"{what}: health of {s.name} changed")

    def req(verb):
        return sim.apply_request(["network", "node", HOST, "service", "database-service", verb]).status == "success"

    t = 5 if late else 0  # DatabaseService takes a backup in timestep 1: covered by late=False
    if comp:
        check(req("compromise"), "compromise refused on an ON node")
        check(db.health_state_actual is SH.COMPROMISED, "compromise did not compromise the service")
        observe("compromise", False)
    check(req("fix"), "fix of the running database service on an ON node refused")
    observe("fix request", d == 0)
    need = d if d >= 1 else 1
    done = db.health_state_actual is SH.GOOD and d == 0
    if not done:
        check(db.health_state_actual is SH.FIXING, lambda: f"after the fix request the service is {db.health_state_actual.name}")
    k = 0
    while not done:
        k += 1
        t += 1
        try:
            sim.pre_timestep(t)
            sim.apply_timestep(t)
        except Exception as e:
            fail(f"tick {k} of {need} raised {type(e).__name__}: {e}")
        a = db.health_state_actual
        if k < need:
            check(a is SH.FIXING, lambda: f"tick {k} of {need}: service is {a.name}, expected FIXING")
            observe(f"tick {k}", False)
        else:
            check(a is SH.GOOD, lambda: f"tick {k} of {need}: service is {a.name}, expected GOOD")
            observe(f"tick {k} (fix completes)", True)
            done = True
    cover("db_fix_done")
    restored = path_file()
    if restored is not None and restored is not f0:
        cover("db_file_replaced")
    fa2 = None if restored is None else restored.health_status
    t += 1
    sim.pre_timestep(t)
    sim.apply_timestep(t)
    check(db.health_state_actual is SH.GOOD, "service left GOOD after the fix completed")
    check(path_file() is restored and (restored is None or restored.health_status is fa2), "database file changed after the fix completed")
    observe("tick after completion", True)


# ---------------------------------------------------------------------------------------------------------------------
# job lists.  Every str/int configuration parameter is pinned in "fixed" (unpinned annotated parameters are symbolic).
# ---------------------------------------------------------------------------------------------------------------------
_CORE = 5  # the first five ops of SW_OPS / APP_OPS: tick, compromise, fix, scan, os_scan
_OTHER_SW = ["database-service", "web-server", "ftp-server", "ntp-server", "dns-client", "database-client",
             "data-manipulation-bot", "dos-bot", "ransomware-script", "c2-server", "c2-beacon", "ntp-client",
             "ftp-client", "terminal", "nmap"]


def _sw_jobs(sw, nops, dmax, vis, timeout, ops=None):
    out = []
    for o in ops if ops is not None else range(nops):
        pd = 1 if o == nops - 1 else 0  # the last op is power_cycle: give the node real shut-down / start-up times
        out.append({"fixed": {"sw": sw, "dmax": dmax, "vis": vis, "pdur": pd, "op": o}, "timeout": timeout})
    return out


def _fs_jobs(dmax, vals, timers, idle, offmodes, timeout, pdur=None, nfiles=1, split_modes=False):
    out = []
    for o, name in enumerate(FS_OPS):
        idl = idle
        if idle == "some":  # ops that read a folder countdown at request time (and the plain tick) also start from 0
            idl = "both" if name in ("tick", "folder_scan", "folder_fs_restore") else "neg"
        pd = pdur if pdur is not None else (1 if name == "power_cycle" else 0)
        fx = {"dmax": dmax, "vals": vals, "timers": timers, "idle": idl, "offmodes": offmodes, "pdur": pd,
              "nfiles": nfiles, "op": o}
        if split_modes or (idle == "some" and idl == "both"):  # the bigger jobs are split by file mode (live / file deleted / folder deleted)
            out += [{"fixed": dict(fx, mode=m), "timeout": timeout} for m in range(3)]
        else:
            out.append({"fixed": fx, "timeout": timeout})
    return out


_RUN4_FIRST = ["compromise", "fix", "os_scan", "file_corrupt", "folder_scan", "folder_fs_delete", "folder_fs_restore",
               "power_cycle"]

HARNESSES = {
    "sw_step": {
        "fn": sw_step,
        "quick": _sw_jobs("dns-server", len(SW_OPS), 2, "some", 400)
        + _sw_jobs("web-browser", len(APP_OPS), 2, "some", 400)
        # subclasses that override the timestep / fix-completion hooks: tick and fix
        + _sw_jobs("database-service", 99, 2, "some", 400, ops=(0, 2))
        + _sw_jobs("data-manipulation-bot", 99, 2, "some", 400, ops=(0, 2)),
        "thorough": _sw_jobs("dns-server", len(SW_OPS), 4, "all", 1500)
        + _sw_jobs("web-browser", len(APP_OPS), 4, "all", 1500)
        + [j for sw in _OTHER_SW for j in _sw_jobs(sw, 99, 2, "some", 900, ops=range(_CORE))],
        "cover": ["done", "fix_started", "fix_done", "sw_scanned", "node_scan_done", "compromised", "settled", "power_cycled"],
        "bounds": {
            "quick": "one service (dns-server) and one application (web-browser), plus tick and fix for database-service "
            "(no backup server configured) and data-manipulation-bot; pre-state: true health all 5 members, "
            "visible in {UNUSED,GOOD,COMPROMISED}, fixing_duration/countdown 0..2, node_scan_duration/countdown 0..2, "
            "node ON/OFF, operating state RUNNING/STOPPED/PAUSED/DISABLED (app: RUNNING/CLOSED); one of 16 (10) "
            "operations incl. power cycle with 1-tick shut-down/start-up; then ticks until all timers ran out",
            "thorough": "durations/countdowns 0..4 and all 5 visible members for dns-server and web-browser (all ops); "
            "tick/compromise/fix/scan/node-scan at the quick bounds for database-service, web-server, ftp-server, "
            "ntp-server, dns-client, database-client, data-manipulation-bot, dos-bot, ransomware-script, c2-server, "
            "c2-beacon, ntp-client, ftp-client, terminal, nmap",
        },
    },
    "fs_step": {
        "fn": fs_step,
        "quick": _fs_jobs(2, "some", "one", "some", "live", 500),
        "thorough": _fs_jobs(2, "diag", "all", "both", "all", 1500, pdur=1, split_modes=True)
        + _fs_jobs(2, "wide", "one", "some", "live", 1500)
        + _fs_jobs(4, "some", "one", "some", "live", 1500)
        + _fs_jobs(2, "some", "one", "some", "live", 1500, nfiles=2),
        "cover": ["done", "folder_scan_done", "folder_restore_done", "file_scanned", "node_scan_done", "settled", "power_cycled"],
        "bounds": {
            "quick": "one file in one folder; pre-state: file true health {GOOD,CORRUPT,COMPROMISED}, folder true health "
            "{GOOD,RESTORING}, (file,folder) visible {(NONE,NONE),(CORRUPT,GOOD)}, file live / file deleted / folder "
            "deleted, node ON or (live file only) OFF, scan/restore/node-scan durations 0..2 with at most one of the "
            "three timers pending (remaining 1..2), idle folder countdown -1 (and 0 for tick / folder scan / folder "
            "restore); one of 16 operations; then ticks until all timers ran out",
            "thorough": "(1) all three timers pending simultaneously, idle countdowns -1 and 0, node OFF in every mode, "
            "every enum member once per field (one index), 1-tick power transitions; (2) file true health all 6 members x "
            "folder true health {GOOD,RESTORING,CORRUPT} x 3 visible pairs; (3) durations/countdowns 0..4; (4) a second "
            "file (GOOD or CORRUPT) in the folder",
        },
    },
    "db_fix": {
        "fn": db_fix,
        "quick": [{"fixed": {"dmax": 2, "fdel": fd, "comp": True, "late": False}, "timeout": 500} for fd in (False, True)],
        "thorough": [
            {"fixed": {"dmax": 3, "fdel": fd, "comp": c, "late": lt}, "timeout": 900}
            for fd in (False, True) for c in (False, True) for lt in (False, True)
        ],
        "cover": ["db_fix_done", "db_file_replaced"],
        "bounds": {
            "quick": "database file true/visible health all 6x6 members, file live or deleted, service visible "
            "{UNUSED,GOOD,COMPROMISED}, fixing_duration 0..2, compromise then fix starting at timestep 0 (the service's "
            "own timestep-1 backup included)",
            "thorough": "fixing_duration 0..3, with/without the preceding compromise, starting at timestep 0 or 5",
        },
    },
    "health_run": {
        "fn": health_run,
        "quick": [{"fixed": {"n_ops": 2, "dmax": 2, "sw": "dns-server", "pdur": 1}, "timeout": 400}],
        "thorough": [{"fixed": {"n_ops": 3, "dmax": 2, "sw": "dns-server", "pdur": 1, "op0": o}, "timeout": 1200} for o in range(len(RUN_OPS))]
        + [{"fixed": {"n_ops": 4, "dmax": 1, "sw": "dns-server", "pdur": 0, "op0": RUN_OPS.index(a), "op1": o}, "timeout": 1500}
           for a in _RUN4_FIRST for o in range(len(RUN_OPS))]
        + [{"fixed": {"n_ops": 2, "dmax": 3, "sw": sw, "pdur": 1}, "timeout": 1200} for sw in ("web-browser", "database-service")],
        "cover": ["done", "fix_done", "folder_scan_done", "folder_restore_done", "node_scan_done", "settled", "power_cycled"],
        "bounds": {
            "quick": "2 operations (out of 20, any order) from the real initial state, the four durations 0..2, then ticks "
            "until all timers ran out",
            "thorough": "3 operations, durations 0..2 (split by first op); 4 operations, durations 0..1, first op in "
            "{compromise, fix, node scan, file corrupt, folder scan, folder delete, folder restore, power cycle} "
            "(split by first two ops); 2 operations, durations 0..3, for web-browser and database-service",
        },
    },
}

"""C20 – the simulation built from a scenario file is what the file says (Engine S)."""
from __future__ import annotations

import copy
from ipaddress import IPv4Address

from vlib import chdriver
from vlib.chdriver import all_of, any_of, assume, check, cover, fail, pick, pick_int, rng
from vlib.fixtures import concrete, mini_scenario, normalise, quiet

SOURCES = [
    "/repo/src/primaite/game/game.py",
    "/repo/src/primaite/simulator/network/hardware/base.py",
    "/repo/src/primaite/simulator/network/hardware/nodes/host/host_node.py",
    "/repo/src/primaite/simulator/network/hardware/nodes/network/router.py",
    "/repo/src/primaite/simulator/network/hardware/nodes/network/firewall.py",
    "/repo/src/primaite/simulator/network/hardware/nodes/network/switch.py",
    "/repo/src/primaite/simulator/system/core/software_manager.py",
    "/repo/src/primaite/game/agent/interface.py",
]
ENCODED = [
    "primaite.game.game.PrimaiteGame.from_config (nodes, software with options, users, listen ports, links, agents)",
    "Node.from_config / HostNode.__init__ / Router.from_config (ports, acl, routes, default route) / Switch.from_config",
    "SoftwareManager.install, UserManager.add_user, FileSystem creation from node config, Network.connect",
    "AbstractAgent.from_config / ActionManager / ObservationManager construction",
]
ASSUMPTIONS = [
    "the claim starts at the parsed dict (YAML text goes through PyYAML's C parser, outside the encoding); the family is "
    "the generated host-router-server scenario with solver-chosen presence bits for optional sections/keys (users, "
    "extra folder/file, static route, default route, a second ACL rule at a solver-chosen position, listen_on_ports, "
    "fixing_duration option, simulation defaults, a node declared OFF, link bandwidth, explicit node durations, "
    "re-declared pre-installed software) and a key-order permutation of the mappings the loader iterates",
    "the reference inventory is derived from the dict independently of the loader; every presence bit is a finite "
    "choice, the solver enumerates the combinations exhaustively",
    "simulation defaults are looked up where the shipped scenarios declare them (simulation.defaults) or at top level",
]


def _scenario(bits, acl_pos, d_up, bw, perm):
    cfg = mini_scenario("routed", with_green=True, with_red=True)
    net = cfg["simulation"]["network"]
    nodes = {n["hostname"]: n for n in net["nodes"]}
    c1, c2, s1, r1 = nodes["client_1"], nodes["client_2"], nodes["server_1"], nodes["router_1"]
    exp = {}
    if bits["users"]:
        c1["users"] = [{"username": "alice", "password": "pw1", "is_admin": False}, {"username": "bob", "password": "pw2", "is_admin": True}]
    if bits["files"]:
        s1["folders"] = s1["folders"] + [{"folder_name": "extra", "files": [{"file_name": "x.dat"}, {"file_name": "y.dat"}]}]
    if bits["route"]:
        r1["routes"] = [{"address": "10.5.0.0", "subnet_mask": "255.255.0.0", "next_hop_ip_address": "192.168.2.10", "metric": 2.5}]
    if bits["droute"]:
        r1["default_route"] = {"next_hop_ip_address": "192.168.2.10"}
    if bits["acl"]:
        r1["acl"][acl_pos] = {"action": "DENY", "protocol": "TCP", "src_ip_address": "192.168.1.3", "dst_port": "HTTP", "src_wildcard_mask": "0.0.0.255" if acl_pos % 2 else None}
        if r1["acl"][acl_pos]["src_wildcard_mask"] is None:
            del r1["acl"][acl_pos]["src_wildcard_mask"]
    if bits["listen"]:
        s1["services"][1] = {"type": "web-server", "options": {"listen_on_ports": [9999, "SMB"]}}
    if bits["fix"]:
        c1["services"][0] = {"type": "dns-client", "options": {"fixing_duration": 5}}
    if bits.get("dnsopt"):
        # the dns-client is declared with its own server, different from the host's node-level dns_server
        assert c1["services"][0]["type"] == "dns-client" and c1.get("dns_server")
        c1["services"][0] = dict(c1["services"][0], options=dict(c1["services"][0].get("options", {}), dns_server="192.168.2.77"))
    if bits.get("ftpopt"):
        # an ftp-client with its own option declared BEFORE the database-service of the same node (the database service
        # brings an FTP client along when the node has none)
        svcs = list(s1["services"])
        idx = next(i for i, x in enumerate(svcs) if x["type"] == "database-service")
        svcs.insert(idx, {"type": "ftp-client", "options": {"fixing_duration": 9}})
        s1["services"] = svcs
    if bits.get("nmne"):
        net["nmne_config"] = {"capture_nmne": True, "nmne_capture_keywords": ["DELETE"]}
    if bits["defaults"]:
        cfg["simulation"]["defaults"] = {"node_start_up_duration": 2, "node_shut_down_duration": 4, "node_scan_duration": 6, "service_fix_duration": 7, "folder_scan_duration": 2, "folder_restore_duration": 3}
    if bits["off"]:
        c2["operating_state"] = "off"  # (any capitalisation is legal: the loader upper-cases it)
    if bits["durations"]:
        c1["start_up_duration"] = d_up
        c1["shut_down_duration"] = d_up + 1
    else:
        c1.pop("start_up_duration", None)
        c1.pop("shut_down_duration", None)
    if bits["redeclare"]:
        # pre-installed system software declared again with an option
        c2["applications"] = c2["applications"] + [{"type": "nmap"}]
        c2["services"] = [{"type": "dns-client"}, {"type": "ntp-client", "options": {"ntp_server_ip": "192.168.2.10"}}]
    net["links"][0]["bandwidth"] = bw
    if perm:
        r1["acl"] = dict(reversed(list(r1["acl"].items())))
        r1["ports"] = dict(reversed(list(r1["ports"].items())))
        am = cfg["agents"][-1]["action_space"]["action_map"]
        cfg["agents"][-1]["action_space"]["action_map"] = dict(reversed(list(am.items())))
        for n in net["nodes"]:
            for k in list(n.keys()):
                pass
        net["nodes"] = [dict(reversed(list(n.items()))) for n in net["nodes"]]
    return cfg


def _inventory_from_dict(cfg):
    """Reference inventory, derived from the scenario dict only."""
    from primaite.utils.validation.port import PORT_LOOKUP

    net = cfg["simulation"]["network"]
    dflt = dict(cfg["simulation"].get("defaults", {}))
    dflt.update(cfg.get("defaults", {}))
    inv = {"nodes": {}, "links": [], "agents": {}}
    for n in net["nodes"]:
        e = {"type": n["type"], "state": (n.get("operating_state") or "ON").upper()}
        if "ip_address" in n:
            e["ip"] = (n["ip_address"], n.get("subnet_mask", "255.255.255.0"))
            e["gw"] = n.get("default_gateway")
            e["dns"] = n.get("dns_server")
        e["start_up"] = int(n.get("start_up_duration", dflt.get("node_start_up_duration", 3)))
        e["shut_down"] = int(n.get("shut_down_duration", dflt.get("node_shut_down_duration", 3)))
        e["scan"] = int(n.get("node_scan_duration", dflt.get("node_scan_duration", 10)))
        sw = {}
        for s in n.get("services", []) + n.get("applications", []):
            o = dict(s.get("options", {}))
            ent = {}
            if "fixing_duration" in o:
                ent["fixing_duration"] = o["fixing_duration"]
            elif "service_fix_duration" in dflt and s in n.get("services", []):
                ent["fixing_duration"] = dflt["service_fix_duration"]
            if "listen_on_ports" in o:
                ent["listen"] = sorted(p if isinstance(p, int) else PORT_LOOKUP[p] for p in o["listen_on_ports"])
            for k in ("target_url", "db_server_ip", "server_password", "ntp_server_ip", "db_password", "server_ip", "payload", "dns_server"):
                if k in o:
                    ent[k] = str(o[k])
            if s["type"] == "dns-client" and "dns_server" not in o and n.get("dns_server"):
                ent["dns_server"] = str(n["dns_server"])  # documented: the client uses the host's DNS server unless it is given one
            if "domain_mapping" in o:
                ent["domain_mapping"] = {k: str(v) for k, v in o["domain_mapping"].items()}
            sw[s["type"]] = ent
        e["software"] = sw
        e["users"] = sorted((u["username"], u["password"], bool(u.get("is_admin", False))) for u in n.get("users", []))
        e["folders"] = {f["folder_name"]: sorted(x["file_name"] for x in f.get("files", [])) for f in n.get("folders", [])}
        if n["type"] == "router":
            e["ports"] = {int(k): (v["ip_address"], v.get("subnet_mask", "255.255.255.0")) for k, v in n.get("ports", {}).items()}
            # documented built-in defaults of every router (Router._set_default_acl docstring): ARP and ICMP permitted
            e["acl"] = {22: ("PERMIT", None, None, None, None, None, PORT_LOOKUP["ARP"], PORT_LOOKUP["ARP"]), 23: ("PERMIT", "icmp", None, None, None, None, None, None)}
            for pos, r in n.get("acl", {}).items():
                e["acl"][int(pos)] = (
                    r["action"], (r.get("protocol") or "").lower() or None, r.get("src_ip_address"), r.get("src_wildcard_mask"), r.get("dst_ip_address"), r.get("dst_wildcard_mask"),
                    PORT_LOOKUP[r["src_port"]] if r.get("src_port") else None, PORT_LOOKUP[r["dst_port"]] if r.get("dst_port") else None,
                )
            e["routes"] = sorted((r["address"], r["subnet_mask"], r["next_hop_ip_address"], float(r.get("metric", 0))) for r in n.get("routes", []))
            e["default_route"] = n.get("default_route", {}).get("next_hop_ip_address")
        inv["nodes"][n["hostname"]] = e
    for l in net["links"]:
        inv["links"].append((frozenset([(l["endpoint_a_hostname"], l["endpoint_a_port"]), (l["endpoint_b_hostname"], l["endpoint_b_port"])]), float(l.get("bandwidth", 100))))
    for a in cfg["agents"]:
        inv["agents"][a["ref"]] = (a["type"], a["team"], len(a.get("action_space", {}).get("action_map", {})))
    return inv


def _check_inventory(game, inv):
    from primaite.simulator.network.hardware.nodes.network.router import Router

    net = game.simulation.network
    built = {n.config.hostname: n for n in net.nodes.values()}
    check(set(built) == set(inv["nodes"]), lambda: f"nodes built {sorted(built)} != declared {sorted(inv['nodes'])}")
    for name, e in inv["nodes"].items():
        n = built[name]
        check(n.config.type == e["type"] or type(n).__name__.lower().replace("_", "-") == e["type"].replace("_", "-"), f"{name}: type differs")
        check(n.operating_state.name == e["state"], f"{name}: declared initial state {e['state']}, built {n.operating_state.name}")
        if "ip" in e:
            nic = n.network_interface[1]
            check((str(nic.ip_address), str(nic.subnet_mask)) == e["ip"], f"{name}: interface address differs")
            check((None if n.config.default_gateway is None else str(n.config.default_gateway)) == e["gw"], f"{name}: default gateway differs")
            check((None if n.config.dns_server is None else str(n.config.dns_server)) == e["dns"], f"{name}: dns server differs")
        check(n.config.start_up_duration == e["start_up"], lambda: f"{name}: start_up_duration {n.config.start_up_duration}, scenario says {e['start_up']}")
        check(n.config.shut_down_duration == e["shut_down"], lambda: f"{name}: shut_down_duration {n.config.shut_down_duration}, scenario says {e['shut_down']}")
        check(n.config.node_scan_duration == e["scan"], lambda: f"{name}: node_scan_duration {n.config.node_scan_duration}, scenario says {e['scan']}")
        sm = n.software_manager
        names = [s.name for s in list(n.services.values()) + list(n.applications.values())]
        check(len(names) == len(set(names)), lambda: f"{name}: software installed twice: {sorted(x for x in names if names.count(x) > 1)}")
        check(set(names) == set(sm.software.keys()), lambda: f"{name}: node.services/applications {sorted(names)} differ from software_manager.software {sorted(sm.software)}")
        for sw_name, ent in e["software"].items():
            check(sw_name in sm.software, f"{name}: declared software {sw_name} not installed")
            s = sm.software[sw_name]
            if e["state"] == "ON":
                check(s.operating_state.name == "RUNNING", f"{name}: declared software {sw_name} is {s.operating_state.name} at start")
            if "fixing_duration" in ent:
                check(s.config.fixing_duration == ent["fixing_duration"], lambda: f"{name}/{sw_name}: fixing_duration {s.config.fixing_duration}, scenario says {ent['fixing_duration']}")
            if "listen" in ent:
                check(sorted(s.listen_on_ports) == ent["listen"], lambda: f"{name}/{sw_name}: listen_on_ports {sorted(s.listen_on_ports)}, scenario says {ent['listen']}")
            for k in ("target_url", "db_server_ip", "server_password", "ntp_server_ip", "db_password", "server_ip", "payload", "dns_server"):
                if k in ent:
                    got = getattr(s.config, k, None)
                    check(got is not None and str(got) == ent[k], lambda: f"{name}/{sw_name}: option {k}={got!r}, scenario says {ent[k]!r}")
            if "domain_mapping" in ent:
                check({k: str(v) for k, v in s.dns_table.items()} == ent["domain_mapping"], f"{name}/{sw_name}: domain mapping differs")
        if e["users"]:
            um = n.user_manager
            got = sorted((u.username, u.password, bool(u.is_admin)) for u in um.users.values() if u.username != "admin")
            check(got == e["users"], lambda: f"{name}: users {got}, scenario says {e['users']}")
        for fname, files in e["folders"].items():
            f = n.file_system.get_folder(fname)
            check(f is not None, f"{name}: declared folder {fname} missing")
            built_files = sorted(x.name for x in f.files.values())
            # a declared name without an extension gets the default file type's extension appended (File docstring)
            ok = len(built_files) == len(files) and all(b == d or (("." not in d) and b.startswith(d + ".")) for b, d in zip(built_files, files))
            check(ok, lambda: f"{name}: folder {fname} holds {built_files}, scenario says {files}")
        if e["type"] == "router":
            for p, (ip, mask) in e["ports"].items():
                ni = n.network_interface[p]
                check((str(ni.ip_address), str(ni.subnet_mask)) == (ip, mask), f"{name}: port {p} address differs")
            for i, r in enumerate(n.acl.acl):
                if i in e["acl"]:
                    w = e["acl"][i]
                    check(r is not None, f"{name}: ACL rule declared at position {i} is missing")
                    got = (r.action.name, r.protocol, None if r.src_ip_address is None else str(r.src_ip_address), None if r.src_wildcard_mask is None else str(r.src_wildcard_mask),
                           None if r.dst_ip_address is None else str(r.dst_ip_address), None if r.dst_wildcard_mask is None else str(r.dst_wildcard_mask), r.src_port, r.dst_port)
                    check(got == w, lambda: f"{name}: ACL rule at {i} is {got}, scenario says {w}")
                else:
                    check(r is None, lambda: f"{name}: undeclared ACL rule at position {i}")
            got_routes = sorted((str(r.address), str(r.subnet_mask), str(r.next_hop_ip_address), float(r.metric)) for r in n.route_table.routes)
            check(got_routes == e["routes"], lambda: f"{name}: routes {got_routes}, scenario says {e['routes']}")
            dr = n.route_table.default_route
            check((None if dr is None else str(dr.next_hop_ip_address)) == e["default_route"], f"{name}: default route differs")
    got_links = []
    for l in net.links.values():
        got_links.append((frozenset([(l.endpoint_a.parent.config.hostname, l.endpoint_a.port_num), (l.endpoint_b.parent.config.hostname, l.endpoint_b.port_num)]), float(l.bandwidth)))
    check(sorted(got_links, key=str) == sorted(inv["links"], key=str), lambda: f"links built {sorted(got_links, key=str)} != declared {sorted(inv['links'], key=str)}")
    check(set(game.agents) == set(inv["agents"]), "agents differ")
    for ref, (typ, team, nact) in inv["agents"].items():
        a = game.agents[ref]
        check(a.config.type == typ and a.config.team == team, f"agent {ref}: type/team differ")
        check(len(a.action_manager.action_map) == nact or nact == 0, f"agent {ref}: action map size differs")


BITS = ["users", "files", "route", "droute", "acl", "listen", "fix", "defaults", "off", "durations", "redeclare", "dnsopt", "nmne", "ftpopt"]


def config_inventory(
    b_users: bool, b_files: bool, b_route: bool, b_droute: bool, b_acl: bool, b_listen: bool, b_fix: bool, b_defaults: bool,
    b_off: bool, b_durations: bool, b_redeclare: bool, acl_pos: int, d_up: int, bw_i: int, perm: bool, b_dnsopt: bool, b_nmne: bool, b_prev: bool, b_ftpopt: bool,
):
    from primaite.game.game import PrimaiteGame

    assume(all_of(rng(acl_pos, 0, 2), rng(d_up, 0, 2), rng(bw_i, 0, 1)))
    bits = dict(zip(BITS, [b_users, b_files, b_route, b_droute, b_acl, b_listen, b_fix, b_defaults, b_off, b_durations, b_redeclare, b_dnsopt, b_nmne, b_ftpopt]))
    bits = {k: bool(v) for k, v in bits.items()}
    pos = pick([0, 11, 23], acl_pos) if bits["acl"] else 0
    dup = pick_int(d_up, 0, 2) if bits["durations"] else 0
    bw = pick([100, 2.5], bw_i)  # bandwidths are floats (Mbit/s): a fractional one must survive loading
    if not bits["acl"]:
        assume(acl_pos == 0)
    if not bits["durations"]:
        assume(d_up == 0)
    with concrete():
        quiet()
        cfg = _scenario(bits, pos, dup, bw, bool(perm))
        inv = _inventory_from_dict(cfg)
        if b_prev:
            # load history: ANOTHER scenario, with the opposite NMNE declaration, was built in this process before
            prev = mini_scenario("switched", with_green=False, with_red=False)
            if not bits["nmne"]:
                prev["simulation"]["network"]["nmne_config"] = {"capture_nmne": True, "nmne_capture_keywords": ["ENCRYPT"]}
            PrimaiteGame.from_config(prev)
        try:
            game = PrimaiteGame.from_config(copy.deepcopy(cfg))
        except Exception as e:
            fail(f"from_config raised {type(e).__name__}: {str(e)[:200]} for a well-formed scenario with {sorted(k for k, v in bits.items() if v)}")
        _check_inventory(game, inv)
        # NMNE capture settings in effect are the ones THIS scenario declares (defaults when it declares none)
        from primaite.game.agent.observations.nic_observations import NICObservation
        from primaite.simulator.network.hardware.base import NetworkInterface

        want_kw = ["DELETE"] if bits["nmne"] else []
        eff = NetworkInterface.nmne_config
        check(bool(eff.capture_nmne) == bits["nmne"], lambda: f"NMNE capture in effect is {eff.capture_nmne}, the scenario declares {bits['nmne']}" + (" (another scenario was loaded before)" if b_prev else ""))
        check(list(eff.nmne_capture_keywords) == want_kw, lambda: f"NMNE keywords in effect are {list(eff.nmne_capture_keywords)}, the scenario declares {want_kw}" + (" (another scenario was loaded before)" if b_prev else ""))
        check(bool(NICObservation.capture_nmne) == bits["nmne"], "the observation layer's NMNE capture flag differs from the scenario's declaration")
        # the episode set-up that every PrimaiteGymEnv.reset() runs on the freshly built game leaves the inventory as declared
        try:
            game.setup_for_episode(episode=1)
        except Exception as e:
            fail(f"setup_for_episode raised {type(e).__name__}: {str(e)[:200]}")
        try:
            _check_inventory(game, inv)
        except chdriver.PropertyViolated as e:
            fail("after setup_for_episode: " + str(e))
        if perm:
            # key-order permutation builds the same simulation
            cfg0 = _scenario(bits, pos, dup, bw, False)
            g0 = PrimaiteGame.from_config(copy.deepcopy(cfg0))
            s_perm = normalise(game.simulation.describe_state())
            s_0 = normalise(g0.simulation.describe_state())
            if s_perm != s_0:
                # once in several thousand builds two describe_state() dumps differ in a value that depends on unseeded
                # process state (seen once in a thorough run, not reproducible): only a difference that persists when
                # both scenarios are built again is attributed to the key order
                s_perm = normalise(PrimaiteGame.from_config(copy.deepcopy(cfg)).simulation.describe_state())
                s_0 = normalise(PrimaiteGame.from_config(copy.deepcopy(cfg0)).simulation.describe_state())
            if s_perm != s_0:
                from harness.c06_blocking import _first_diff

                fail("key-order permutation of the scenario mappings builds a different simulation: " + _first_diff(s_perm, s_0)[:300])
            cover("perm")
    cover("built")


WL_FREQS = ["WIFI_2_4", "WIFI_5"]


def wireless_inventory(f1: int, f2: int):
    """The shipped wireless-WAN scenario with the frequency of each router's access point a solver choice: every access
    point is built on the declared frequency - as reported by the interface AND as registered in the air space - and the
    two hosts reach each other exactly when both access points share a frequency."""
    import yaml

    from primaite.game.game import PrimaiteGame

    assume(all_of(rng(f1, 0, 1), rng(f2, 0, 1)))
    fa, fb = pick(WL_FREQS, f1), pick(WL_FREQS, f2)
    with concrete():
        quiet()
        with open("/repo/tests/assets/configs/wireless_wan_network_config.yaml") as fh:
            cfg = yaml.safe_load(fh)
        for n in cfg["simulation"]["network"]["nodes"]:
            if n["hostname"] == "router_1":
                n["wireless_access_point"]["frequency"] = fa
            elif n["hostname"] == "router_2":
                n["wireless_access_point"]["frequency"] = fb
        try:
            game = PrimaiteGame.from_config(cfg)
        except Exception as e:
            fail(f"from_config raised {type(e).__name__}: {str(e)[:200]} for access points on {fa} / {fb}")
        net = game.simulation.network
        air = net.airspace
        for name, want in (("router_1", fa), ("router_2", fb)):
            r = net.get_node_by_hostname(name)
            ap = r.wireless_access_point
            check(ap.frequency.name == want, lambda: f"{name}: access point built on {ap.frequency.name}, the scenario declares {want}")
            check(ap.enabled, f"{name}: access point not enabled")
            groups = [hz for hz, lst in air.wireless_interfaces_by_frequency.items() if ap in lst]
            check(groups == [ap.frequency.frequency_hz], lambda: f"{name}: access point declared on {want} is registered in the air space under {groups} (its own frequency is {ap.frequency.frequency_hz})")
        a, b = net.get_node_by_hostname("pc_a"), net.get_node_by_hostname("pc_b")
        ok = False
        for _ in range(4):
            ok = a.ping("192.168.2.2", pings=1) or ok
    cover("wireless_built")
    check(bool(ok) == (fa == fb), lambda: f"access points on {fa} / {fb}: ping across the wireless link {'succeeds' if ok else 'fails'}")


SCHED_ORDERS = [(0, 1, 2), (2, 1, 0), (1, 0, 2), (2, 0, 1)]


def schedule_inventory(order_i: int, n_eps: int, via_env: bool):
    """Episode-scheduled scenario directories: episode e is built from the files listed under key e of schedule.yaml
    (wrapping around after the last key), whatever order the keys are written in. The generated directory has three
    variant files that set a visible quantity (the episode length, through a YAML anchor the base scenario refers to)."""
    import os
    import shutil
    import tempfile

    import yaml

    from primaite.game.game import PrimaiteGame
    from primaite.session.environment import PrimaiteGymEnv
    from primaite.session.episode_schedule import build_scheduler

    assume(all_of(rng(order_i, 0, len(SCHED_ORDERS) - 1), rng(n_eps, 1, 7)))
    order = pick(SCHED_ORDERS, order_i)
    n = pick_int(n_eps, 1, 7)
    via_env = True if via_env else False
    with concrete():
        quiet()
        tmpdir = tempfile.mkdtemp(prefix="verif_sched20_")
        try:
            cfg = mini_scenario("switched", with_green=False, with_red=False, max_episode_length=7777)
            text = yaml.safe_dump(cfg).replace("max_episode_length: 7777", "max_episode_length: *mel")
            with open(os.path.join(tmpdir, "base.yaml"), "w") as fh:
                fh.write(text)
            for i in range(3):
                with open(os.path.join(tmpdir, f"v{i}.yaml"), "w") as fh:
                    fh.write(f"episode_len: &mel {5 + i}\n")
            with open(os.path.join(tmpdir, "schedule.yaml"), "w") as fh:
                fh.write("base_scenario: base.yaml\nschedule:\n" + "".join(f"  {k}:\n    - v{k}.yaml\n" for k in order))
            seen = []
            try:
                if via_env:
                    env = PrimaiteGymEnv(env_config=tmpdir)
                    seen.append((env.episode_counter, env.game.options.max_episode_length))
                    for _ in range(n):
                        env.reset()
                        seen.append((env.episode_counter, env.game.options.max_episode_length))
                else:
                    sched = build_scheduler(tmpdir)
                    for e in range(n + 1):
                        g = PrimaiteGame.from_config(sched(e))
                        seen.append((e, g.options.max_episode_length))
            except Exception as e:
                fail(f"episode-scheduled directory with keys written in order {order} raised {type(e).__name__}: {str(e)[:200]}")
        finally:
            shutil.rmtree(tmpdir, ignore_errors=True)
    cover("schedule_built")
    for e, mel in seen:
        check(mel == 5 + (e % 3), lambda: f"schedule keys written in order {order}: episode {e} was built with episode length {mel}, the files under key {e % 3} declare {5 + (e % 3)}")


NS_PCS = [1, 8, 23, 24, 25, 47]
NS_BW = [100, 150, 37]


def node_set_inventory(npi: int, bwi: int, include_router: bool, start_i: int):
    """A scenario whose network section declares an `office-lan` node set (docs/source/node_sets.rst): the loader builds
    exactly the declared number of hosts with the declared addresses, enough 24-port switches (a core switch when more
    than one edge switch is needed), every link of the set carries the declared bandwidth, and the hosts of the set can
    reach each other (and their gateway when a router is included)."""
    from primaite.game.game import PrimaiteGame

    assume(all_of(rng(npi, 0, len(NS_PCS) - 1), rng(bwi, 0, len(NS_BW) - 1), rng(start_i, 0, 1)))
    n = pick(NS_PCS, npi)
    bw = pick(NS_BW, bwi)
    start = pick([10, 100], start_i)
    include_router = True if include_router else False
    with concrete():
        quiet()
        cfg = mini_scenario("switched", with_green=False, with_red=False)
        cfg["simulation"]["network"]["node_sets"] = [
            {"type": "office-lan", "lan_name": "CORP", "subnet_base": 7, "pcs_ip_block_start": start, "num_pcs": n, "include_router": include_router, "bandwidth": bw}
        ]
        try:
            game = PrimaiteGame.from_config(copy.deepcopy(cfg))
        except Exception as e:
            fail(f"from_config raised {type(e).__name__}: {str(e)[:200]} for an office-lan node set with {n} pcs")
        net = game.simulation.network
        by_name = {x.config.hostname: x for x in net.nodes.values()}
        pcs = [by_name.get(f"pc_{i}_CORP") for i in range(1, n + 1)]
        check(all(p is not None for p in pcs), lambda: f"office-lan with num_pcs={n}: hosts missing {[i for i, p in enumerate(pcs, 1) if p is None][:5]}")
        check(f"pc_{n + 1}_CORP" not in by_name, "more hosts built than declared")
        for i, p in enumerate(pcs, 1):
            check(str(p.network_interface[1].ip_address) == f"192.168.7.{i + start - 1}", lambda: f"pc_{i}_CORP has address {p.network_interface[1].ip_address}")
            check(p.operating_state.name == "ON", f"pc_{i}_CORP is not ON")
        n_edge = -(-n // 23)
        edges = [k for k in by_name if k.startswith("switch_edge_") and k.endswith("_CORP")]
        check(len(edges) == n_edge, lambda: f"{len(edges)} edge switches for {n} hosts, {n_edge} needed")
        check(("switch_core_CORP" in by_name) == (n_edge > 1), "core switch present/absent contrary to the number of edge switches")
        check(("router_CORP" in by_name) == include_router, "router present/absent contrary to include_router")
        set_nodes = set(x for x in by_name if x.endswith("_CORP"))
        for l in net.links.values():
            a, b = l.endpoint_a.parent.config.hostname, l.endpoint_b.parent.config.hostname
            if a in set_nodes or b in set_nodes:
                check(float(l.bandwidth) == float(bw), lambda: f"link {a}<->{b} of the node set carries {l.bandwidth} Mbps, the scenario declares {bw}")
                check(l.is_up, lambda: f"link {a}<->{b} of the node set is not up")
        if n >= 2:
            ok = pcs[0].ping(str(pcs[-1].network_interface[1].ip_address), pings=1) or pcs[0].ping(str(pcs[-1].network_interface[1].ip_address), pings=1)
            check(ok, lambda: f"pc_1 cannot reach pc_{n} of the same office LAN")
        if include_router:
            ok = pcs[-1].ping("192.168.7.1", pings=1) or pcs[-1].ping("192.168.7.1", pings=1)
            check(ok, lambda: f"pc_{n} cannot reach the LAN's router / default gateway 192.168.7.1 ({n_edge} edge switches)")
    cover("node_set_built")


FW_LISTS = ["internal_inbound_acl", "internal_outbound_acl", "dmz_inbound_acl", "dmz_outbound_acl", "external_inbound_acl", "external_outbound_acl"]


def firewall_inventory(b0: bool, b1: bool, b2: bool, b3: bool, b4: bool, b5: bool, has_acl: bool, dmz: bool, pos_i: int, route: bool):
    """A scenario with a firewall that declares any subset of its six ACL lists: exactly the declared rules are built,
    in the declared list and position; undeclared lists hold nothing; loading never raises."""
    from primaite.game.game import PrimaiteGame
    from primaite.utils.validation.port import PORT_LOOKUP

    assume(rng(pos_i, 0, 2))
    pos = pick([0, 7, 22], pos_i)  # odd lists use pos+1, so 23 (the last slot) is covered
    present = [bool(x) for x in (b0, b1, b2, b3, b4, b5)]
    with concrete():
        quiet()
        fw = {
            "type": "firewall", "hostname": "fw_1", "start_up_duration": 0,
            "ports": {
                "external_port": {"ip_address": "10.0.0.1", "subnet_mask": "255.255.255.0"},
                "internal_port": {"ip_address": "192.168.1.1", "subnet_mask": "255.255.255.0"},
            },
        }
        if dmz:
            fw["ports"]["dmz_port"] = {"ip_address": "172.16.0.1", "subnet_mask": "255.255.255.0"}
        declared = {}
        if has_acl:
            fw["acl"] = {}
            for i, name in enumerate(FW_LISTS):
                if present[i]:
                    rule = {"action": "DENY" if i % 2 else "PERMIT", "protocol": ["TCP", "UDP", "ICMP"][i % 3], "src_ip": f"10.9.{i}.1"}
                    if i % 2 == 0:
                        rule["dst_port"] = "HTTP"
                    fw["acl"][name] = {pos + (i % 2): rule}
                    declared[name] = {pos + (i % 2): rule}
        if route:
            fw["routes"] = [{"address": "10.5.0.0", "subnet_mask": "255.255.0.0", "next_hop_ip_address": "10.0.0.2"}]
            fw["default_route"] = {"next_hop_ip_address": "10.0.0.2"}
        cfg = mini_scenario("switched", with_green=False, with_red=False)
        cfg["simulation"]["network"]["nodes"].append(fw)
        cfg["simulation"]["network"]["links"].append({"endpoint_a_hostname": "fw_1", "endpoint_a_port": 2, "endpoint_b_hostname": "switch_1", "endpoint_b_port": 4, "bandwidth": 100})
        try:
            game = PrimaiteGame.from_config(copy.deepcopy(cfg))
        except Exception as e:
            fail(f"from_config raised {type(e).__name__}: {str(e)[:200]} for a firewall declaring acl sections {sorted(declared)}")
        node = game.simulation.network.get_node_by_hostname("fw_1")
        for i, name in enumerate(FW_LISTS):
            acl = getattr(node, name)
            built = {p: r for p, r in enumerate(acl.acl) if r is not None}
            want = declared.get(name, {})
            check(set(built) == set(want), lambda: f"firewall list {name}: rules at positions {sorted(built)}, scenario declares {sorted(want)}")
            for p_, w in want.items():
                r = built[p_]
                got = (r.action.name, r.protocol, None if r.src_ip_address is None else str(r.src_ip_address), r.dst_port)
                exp = (w["action"], w["protocol"].lower(), w["src_ip"], PORT_LOOKUP[w["dst_port"]] if "dst_port" in w else None)
                check(got == exp, lambda: f"firewall list {name} position {p_}: built {got}, scenario says {exp}")
        check(str(node.external_port.ip_address) == "10.0.0.1" and str(node.internal_port.ip_address) == "192.168.1.1", "firewall port addresses differ")
        if dmz:
            check(str(node.dmz_port.ip_address) == "172.16.0.1", "firewall dmz port address differs")
        got_routes = sorted((str(r.address), str(r.next_hop_ip_address)) for r in node.route_table.routes)
        check(got_routes == ([("10.5.0.0", "10.0.0.2")] if route else []), "firewall routes differ")
        dr = node.route_table.default_route
        check((None if dr is None else str(dr.next_hop_ip_address)) == ("10.0.0.2" if route else None), "firewall default route differs")
    cover("fw_built")


def shipped_inventory(fi: int):
    """Every shipped scenario file with an RL agent is run through the same inventory comparison (validates the
    reference inventory and checks the shipped files themselves)."""
    import yaml

    from primaite.game.game import PrimaiteGame
    from harness.c01_step import SHIPPED

    assume(rng(fi, 0, len(SHIPPED) - 1))
    f = pick(SHIPPED, fi)
    with concrete():
        quiet()
        with open(f) as fh:
            cfg = yaml.safe_load(fh)
        for k in ("save_agent_actions", "save_step_metadata", "save_pcap_logs", "save_sys_logs", "save_agent_logs"):
            cfg.setdefault("io_settings", {})[k] = False
        inv = _inventory_from_dict(cfg)
        try:
            game = PrimaiteGame.from_config(copy.deepcopy(cfg))
        except Exception as e:
            fail(f"{f}: from_config raised {type(e).__name__}: {str(e)[:200]}")
        _check_inventory_shipped(game, inv, f)
    cover("shipped")


def _check_inventory_shipped(game, inv, f):
    try:
        _check_inventory(game, inv)
    except Exception as e:
        from vlib.chdriver import PropertyViolated

        if isinstance(e, PropertyViolated):
            raise PropertyViolated(f"{f.split('/')[-1]}: {e}")
        raise


HARNESSES = {
    "config_inventory": {
        "fn": config_inventory,
        "quick": [{"fixed": {"b_users": u, "b_files": u, "b_dnsopt": u, "b_ftpopt": u, "b_off": o, "b_route": o, "b_nmne": o, "b_prev": True, "perm": p, "bw_i": 1 if p else 0}, "timeout": 280} for u in (False, True) for o in (False, True) for p in (False, True)],
        "thorough": [{"fixed": {"b_users": u, "b_files": f, "b_dnsopt": f, "b_ftpopt": u, "b_off": o, "b_nmne": o, "b_prev": p, "perm": p}, "timeout": 1500} for u in (False, True) for f in (False, True) for o in (False, True) for p in (False, True)],
        "cover": ["built", "perm"],
        "bounds": {"quick": "14 presence bits (7 coupled per job; another scenario with the opposite NMNE declaration loaded before), 3 ACL positions (0, 11, 23), 3 durations, 2 bandwidths (one fractional), key-order permutation", "thorough": "all 2^11 presence combinations of the first 11 bits, the dns-client option bit coupled to the files bit"},
    },
    "wireless_inventory": {
        "fn": wireless_inventory,
        "quick": [{"fixed": {}, "timeout": 200}],
        "thorough": [{"fixed": {}, "timeout": 200}],
        "cover": ["wireless_built"],
        "bounds": "the shipped wireless-WAN scenario with each access point declared on WIFI_2_4 or WIFI_5 (4 combinations)",
    },
    "schedule_inventory": {
        "fn": schedule_inventory,
        "quick": [{"fixed": {}, "timeout": 280}],
        "thorough": [{"fixed": {}, "timeout": 600}],
        "cover": ["schedule_built"],
        "bounds": "generated episode-scheduled directory with 3 variant files, schedule keys written in 4 orders, 1-7 consecutive episodes (wrapping twice), through build_scheduler + from_config and through PrimaiteGymEnv resets",
    },
    "node_set_inventory": {
        "fn": node_set_inventory,
        "quick": [{"fixed": {}, "timeout": 280}],
        "thorough": [{"fixed": {}, "timeout": 600}],
        "cover": ["node_set_built"],
        "bounds": "office-lan node set with 1 / 8 / 23 / 24 / 25 / 47 hosts (one, two and three edge switches), 3 bandwidths, 2 address block starts, with / without router",
    },
    "firewall_inventory": {
        "fn": firewall_inventory,
        "quick": [{"fixed": {"dmz": d}, "timeout": 280} for d in (True, False)],
        "thorough": [{"fixed": {"dmz": d, "route": r}, "timeout": 900} for d in (True, False) for r in (True, False)],
        "cover": ["fw_built"],
        "bounds": "every subset of the six ACL sections (or no acl section), 3 rule positions incl. 0 and 23, with/without DMZ port, static + default route",
    },
    "shipped_inventory": {
        "fn": shipped_inventory,
        "quick": [{"fixed": {}, "timeout": 280}],
        "thorough": [{"fixed": {}, "timeout": 600}],
        "cover": ["shipped"],
        "bounds": "the shipped scenario files with an RL agent listed in harness/c01_step.py:SHIPPED",
    },
}

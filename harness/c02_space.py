"""C02 – every observation is a member of the declared observation space (Engine S + Engine T)."""
from __future__ import annotations

import copy

from vlib.chdriver import all_of, any_of, assume, check, cover, fail, pick, pick_int, rng
from vlib.fixtures import concrete, mini_scenario, quiet, space_violations
from harness.c01_step import check_reset, check_step

SOURCES = [
    "/repo/src/primaite/game/agent/observations/observation_manager.py",
    "/repo/src/primaite/game/agent/observations/host_observations.py",
    "/repo/src/primaite/game/agent/observations/nic_observations.py",
    "/repo/src/primaite/game/agent/observations/software_observation.py",
    "/repo/src/primaite/game/agent/observations/file_system_observations.py",
    "/repo/src/primaite/game/agent/observations/acl_observation.py",
    "/repo/src/primaite/game/agent/observations/router_observation.py",
    "/repo/src/primaite/game/agent/observations/firewall_observation.py",
    "/repo/src/primaite/game/agent/observations/link_observation.py",
    "/repo/src/primaite/game/agent/observations/node_observations.py",
    "/repo/src/primaite/session/environment.py",
]
ENCODED = [
    "observe() and space of NestedObservation, NodesObservation, HostObservation, ServiceObservation, "
    "ApplicationObservation, FolderObservation, FileObservation, NICObservation, RouterObservation, PortObservation, "
    "ACLObservation, LinksObservation, LinkObservation, NullObservation (instances built by the real from_config chain)",
    "NICObservation._categorise_traffic and LinkObservation.observe utilisation band translated to FP64 (Engine T)",
    "PrimaiteGymEnv.step/reset/_get_obs/observation_space (environment level, via the C01 driver)",
]
ASSUMPTIONS = [
    "leaf level: the state dictionary is the real Simulation.describe_state() of a generated scenario in which every "
    "quantity the leaf reads is overwritten by a solver value: enum-valued fields range over the members of the real "
    "enum classes (read at run time), counts are unbounded non-negative integers, ACL rule fields are listed / "
    "unlisted / None, components may be absent",
    "membership is decided by a pure-Python walker over the real gymnasium space object (Dict keys equal, Discrete "
    "start <= x < start+n, MultiBinary, Box) - validated against space.contains on concrete observations each run",
    "traffic/load categorisation (float arithmetic) is decided in FP64 by Engine T for all finite doubles with "
    "0 <= traffic <= link bandwidth, speed > 0 (NIC) and 0 <= load, 0 < bandwidth (link); Engine S keeps those concrete",
    "thresholds are those of the generated scenario (nmne 0/5/10, file access 2/5/10, executions 2/3/5)",
]

GROUPS = ["host_sw", "host_fs", "nic", "acl", "link", "absent", "fw"]


def _env(kind: str, nmne: bool, flatten: bool = False, variant: str = "exact"):
    from primaite.session.environment import PrimaiteGymEnv

    quiet()
    cfg = mini_scenario(kind, flatten_obs=flatten, with_green=False, with_red=False, obs_variant=variant)
    if nmne:
        cfg["simulation"]["network"]["nmne_config"] = {"capture_nmne": True, "nmne_capture_keywords": ["DELETE"]}
    return PrimaiteGymEnv(env_config=copy.deepcopy(cfg))


def _enum_vals(cls):
    return [m.value for m in cls]


def leaf_obs_in_space(
    g: int,
    e1: int, e2: int, e3: int, e4: int, e5: int,
    c1: int, c2: int, c3: int, c4: int,
    b1: bool, b2: bool,
    k1: int, k2: int, k3: int,
    kind: str = "routed",
    nmne: bool = True,
    variant: str = "exact",
    ftp: bool = False,
):
    """The real observation tree of the generated scenario evaluated on a state dict with solver-chosen quantities.
    ftp: the state is taken in a step in which the observed ftp-client really transferred a file (services report
    transient activity in describe_state)."""
    from primaite.simulator.file_system.file_system_item_abc import FileSystemItemHealthStatus
    from primaite.simulator.network.hardware.node_operating_state import NodeOperatingState
    from primaite.simulator.network.hardware.nodes.network.router import ACLAction
    from primaite.simulator.system.applications.application import ApplicationOperatingState
    from primaite.simulator.system.services.service import ServiceOperatingState
    from primaite.simulator.system.software import SoftwareHealthState

    with concrete():
        env = _env(kind, nmne, variant=variant)
        env.reset()
        om = env.agent.observation_manager
        space = om.space
        if ftp:
            from ipaddress import IPv4Address

            cli = env.game.simulation.network.get_node_by_hostname("client_1")
            srv_ip = "192.168.1.10" if kind == "switched" else "192.168.2.10"
            cli.file_system.create_file(file_name="up.txt", folder_name="out")
            sent = cli.software_manager.software["ftp-client"].send_file(dest_ip_address=IPv4Address(srv_ip), src_folder_name="out", src_file_name="up.txt", dest_folder_name="in", dest_file_name="up.txt")
            if not sent:
                fail("harness: the FTP transfer that should precede the observation did not succeed")
        state = copy.deepcopy(env.game.get_sim_state())
        # sanity of the walker against gymnasium on the concrete observation
        o0 = om.obs.observe(state)
        if bool(space.contains(o0)) != (not space_violations(space, o0)):
            fail("membership walker disagrees with gymnasium space.contains on a concrete observation")
    assume(all_of(rng(g, 0, len(GROUPS) - 1), c1 >= 0, c2 >= 0, c3 >= 0, c4 >= 0))
    grp = pick(GROUPS, g)
    nodes = state["network"]["nodes"]
    host = nodes["client_1"]
    if grp == "host_sw":
        host["operating_state"] = pick(_enum_vals(NodeOperatingState), e1)
        svc = host["services"]["dns-client"]
        svc["operating_state"] = pick(_enum_vals(ServiceOperatingState), e2)
        svc["health_state_actual"] = pick(_enum_vals(SoftwareHealthState), e3)
        svc["health_state_visible"] = pick(_enum_vals(SoftwareHealthState), e3)
        app = host["applications"]["web-browser"]
        # application state/health are coupled to the service's choice (covers every member of every enum without
        # taking the full product): app state index = e2 mod 3, health shared
        assume(all_of(rng(e4, 0, 0), rng(e5, 0, 0)))
        avs = _enum_vals(ApplicationOperatingState)
        app["operating_state"] = avs[_enum_vals(ServiceOperatingState).index(svc["operating_state"]) % len(avs)]
        app["health_state_actual"] = svc["health_state_actual"]
        app["health_state_visible"] = svc["health_state_visible"]
        app["num_executions"] = c1
        sess = host["services"]["user-session-manager"]
        if b1:
            sess["current_local_user"] = "admin"
    elif grp == "host_fs":
        fs = host["file_system"]
        fs["num_file_creations"] = c1
        fs["num_file_deletions"] = c2
        fold = fs["folders"]["docs"]
        # actual and visible health take the same member (membership does not depend on which one is selected)
        fold["health_status"] = pick(_enum_vals(FileSystemItemHealthStatus), e1)
        fold["visible_status"] = fold["health_status"]
        fold["scanned_this_step"] = b1
        f = fold["files"]["a.txt"]
        f["health_status"] = fold["health_status"]
        f["visible_status"] = f["health_status"]
        f["num_access"] = c3
        assume(all_of(rng(e2, 0, 0), rng(e3, 0, 0), rng(e4, 0, 0), rng(e5, 0, 0)))
    elif grp == "nic":
        nic = host["NICs"][1]
        nic["enabled"] = b1
        if "nmne" in nic:
            nic["nmne"] = {"direction": {"inbound": {"keywords": {"*": c1}}, "outbound": {"keywords": {"*": c2}}}}
        # second observation in a row exercises the last-step memory (delta may be negative after an episode change)
        assume(all_of(rng(e1, 0, 0), rng(e2, 0, 0), rng(e3, 0, 0), rng(e4, 0, 0), rng(e5, 0, 0)))
    elif grp == "acl":
        assume(kind == "routed")
        acl = nodes["router_1"]["acl"]["acl"]
        ips = [None, "192.168.1.2", "10.9.9.9", "10.0.0.1"]  # None, first listed, unlisted, last listed
        ports = [None, 80, 53, 0, 8080]
        protos = [None, "tcp", "udp", "icmp", "none"]
        wcs = [None, "0.0.0.1", "0.0.0.3", "0.9.9.9"]  # None, first listed, last listed, unlisted
        # src/dst share the address and wildcard choice, protocol and ports share one index (5 values each): every
        # listed/unlisted/None value of every field is still visited, without the full product
        assume(all_of(rng(e4, 0, 0), rng(e5, 0, 0), rng(k2, 0, 0), rng(k3, 0, 0)))
        ip_c, wc_c, pp = pick(ips, e3), pick(wcs, k1), pick_int(e2, 0, 4)
        rule = {
            "action": pick(_enum_vals(ACLAction), e1),
            "protocol": protos[pp],
            "src_ip_address": ip_c,
            "src_wildcard_mask": wc_c,
            "src_port": ports[pp],
            "dst_ip_address": ip_c,
            "dst_wildcard_mask": wc_c,
            "dst_port": ports[(pp + 1) % 5],
            "match_count": c1,
        }
        slot = 0 if b1 else 3
        acl[slot] = rule if not b2 else None
    elif grp == "link":
        links = state["network"]["links"]
        key = sorted(links.keys())[0]
        assume(all_of(rng(e1, 0, 0), rng(e2, 0, 0), rng(e3, 0, 0), rng(e4, 0, 0), rng(e5, 0, 0)))
        links[key]["current_load"] = 0 if b1 else links[key]["current_load"]
        if b2:
            del links[key]  # link missing from the state
    elif grp == "fw":
        # the firewall of the firewall-with-DMZ scenario in every power state, its ports enabled or not, or missing
        assume(kind == "firewalled")
        assume(all_of(rng(e2, 0, 1), rng(e3, 0, 0), rng(e4, 0, 0), rng(e5, 0, 0)))
        fw = nodes["firewall_1"]
        fw["operating_state"] = pick(_enum_vals(NodeOperatingState), e1)
        for pn in (1, 2, 3):
            if pn in fw["NICs"]:
                fw["NICs"][pn]["enabled"] = b1 if pn != 2 else b2
        if pick_int(e2, 0, 1) == 1:
            del nodes["firewall_1"]
    elif grp == "absent":
        # components named by the observation config are missing from the state
        assume(all_of(rng(e1, 0, 4), rng(e2, 0, 0), rng(e3, 0, 0), rng(e4, 0, 0), rng(e5, 0, 0)))
        what = pick(["service", "application", "folder", "file", "node"], e1)
        if what == "service":
            del host["services"]["dns-client"]
        elif what == "application":
            del host["applications"]["web-browser"]
        elif what == "folder":
            del host["file_system"]["folders"]["docs"]
        elif what == "file":
            del host["file_system"]["folders"]["docs"]["files"]["a.txt"]
        else:
            del nodes["client_1"]
    try:
        obs = om.obs.observe(state)
        obs2 = om.obs.observe(state)
    except Exception as e:
        fail(f"observe raised {type(e).__name__}: {str(e)[:200]} (group {grp})")
    cover("grp_" + grp)
    v = space_violations(space, obs)
    check(not v, lambda: f"observation not in space (group {grp}): {v[:3]}")
    v2 = space_violations(space, obs2)
    check(not v2, lambda: f"second observation not in space (group {grp}): {v2[:3]}")


def env_obs_in_space(a0: int, a1: int, M: int, k: int = 1, kind: str = "switched", nmne: bool = False, flatten: bool = False, variant: str = "exact"):
    """Observations returned by reset/step of the real environment are members of env.observation_space, nested and
    flattened, and the spaces are the same object structure in consecutive episodes."""
    with concrete():
        env = _env(kind, nmne, flatten, variant)
        n_actions = len(env.agent.action_manager.action_map)
        space0 = env.observation_space
        aspace0 = env.action_space
    acts = [a0, a1][:k]
    assume(all_of(rng(M, 1, k + 1), *[rng(a, 0, n_actions - 1) for a in acts]))
    env.game.options.max_episode_length = M
    if flatten:
        def member(o):
            return [] if bool(env.observation_space.contains(o)) else ["flattened observation not in flattened space"]
    else:
        def member(o):
            return space_violations(env.observation_space, o)
    o = check_reset(env, "initial reset", check_obs=False)
    v = member(o)
    check(not v, lambda: f"reset observation not in space: {v[:3]}")
    env.game.options.max_episode_length = M
    for i in range(k):
        a = pick_int(acts[i], 0, n_actions - 1)
        obs, _ = check_step(env, a, i, M, f"step {i}", check_obs=False)
        v = member(obs)
        check(not v, lambda: f"step {i} action {a} [{env.agent.action_manager.action_map[a][0]}]: observation not in space: {v[:3]}")
    o = check_reset(env, "second episode", check_obs=False)
    v = member(o)
    check(not v, lambda: f"second-episode reset observation not in space: {v[:3]}")
    check(env.observation_space == space0, "observation space differs between episodes")
    check(env.action_space == aspace0, "action space differs between episodes")
    cover("env_done")


# ------------------------------------------------------------------------------------------------ Engine T (FP64)
def traffic_fp_smt():
    """FP64: NIC traffic category and link utilisation band stay inside Discrete(11) for all finite doubles."""
    import z3

    from primaite.game.agent.observations.link_observation import LinkObservation
    from primaite.game.agent.observations.nic_observations import NICObservation
    from vlib.py2smt import FP64, Obligations, Rec, Translator

    ob = Obligations(timeout_ms=150000)
    traffic, speed, bw = z3.FP("traffic", FP64), z3.FP("speed", FP64), z3.FP("bw", FP64)
    fin = lambda x: z3.Not(z3.Or(z3.fpIsNaN(x), z3.fpIsInf(x)))
    zero = z3.FPVal(0.0, FP64)
    big = z3.FPVal(1e12, FP64)
    tr = Translator()
    self_rec = Rec({}, tag="nicobs")
    cat = tr.call_function(NICObservation._categorise_traffic, [self_rec, traffic, {"speed": speed}], {})
    base = [fin(traffic), fin(speed), fin(bw), z3.fpGEQ(traffic, zero), z3.fpGT(speed, zero), z3.fpGT(bw, zero), z3.fpLEQ(traffic, bw), z3.fpLEQ(bw, big), z3.fpGEQ(speed, z3.FPVal(1e-6, FP64))]
    r1 = ob.prove(
        "NIC traffic category in [0,10] for 0 <= traffic <= link bandwidth (independent of the NIC's nominal speed)",
        base,
        z3.And(cat >= 0, cat <= 10),
        {"traffic": traffic, "speed": speed, "bw": bw},
    )
    # link band: reproduce LinkObservation.observe on a state record
    load, lbw = z3.FP("load", FP64), z3.FP("lbw", FP64)
    tr2 = Translator()
    link_self = Rec({"where": ["links", "l"], "default_observation": "DEFAULT"}, tag="linkobs")
    state = {"links": {"l": {"bandwidth": lbw, "current_load": load}}}
    try:
        res = tr2.call_function(LinkObservation.observe, [link_self, state], {})
        band = res["PROTOCOLS"]["ALL"]
        r2 = ob.prove(
            "link utilisation band in [0,10] for 0 <= load <= 1e12, 1e-6 <= bandwidth",
            [fin(load), fin(lbw), z3.fpGEQ(load, zero), z3.fpGEQ(lbw, z3.FPVal(1e-6, FP64)), z3.fpLEQ(load, big)],
            z3.And(band >= 0, band <= 10),
            {"load": load, "lbw": lbw},
        )
    except Exception as e:
        return {"status": "ERROR", "error": f"LinkObservation.observe not translatable: {type(e).__name__}: {e}"}
    # translator validation on a grid against the real functions
    import random

    rnd = random.Random(5)
    nic = NICObservation(where=["x"], include_nmne=False)
    lo = LinkObservation(where=["links", "l"])
    validated = 0
    for _ in range(80):
        sp = rnd.choice([100.0, 1.0, 10.0, rnd.random() * 1000 + 0.001])
        t = rnd.choice([0.0, sp, sp * rnd.random(), sp * 0.999999, sp / 9, 2 * sp])
        real = nic._categorise_traffic(t, {"speed": sp})
        enc = z3.simplify(z3.substitute(cat, (traffic, z3.FPVal(t, FP64)), (speed, z3.FPVal(sp, FP64))))
        if enc.as_long() != real:
            return {"status": "ERROR", "error": f"translator validation: _categorise_traffic({t},{sp}) real={real} enc={enc}"}
        realb = lo.observe({"links": {"l": {"bandwidth": sp, "current_load": t}}})["PROTOCOLS"]["ALL"]
        encb = z3.simplify(z3.substitute(band, (load, z3.FPVal(t, FP64)), (lbw, z3.FPVal(sp, FP64))))
        if encb.as_long() != realb:
            return {"status": "ERROR", "error": f"translator validation: link band({t},{sp}) real={realb} enc={encb}"}
        validated += 2
    status = "CONFIRMED"
    cex = None
    for r in ob.results:
        if r["status"] == "REFUTED" and cex is None:
            status, cex = "REFUTED", r
        elif r["status"] != "CONFIRMED" and status == "CONFIRMED":
            status = "INCONCLUSIVE" if r["status"] != "ERROR" else "ERROR"
    out = {
        "status": status, "obligations": len(ob.results), "smt_queries": ob.queries, "smt_time_s": round(ob.time_s, 3),
        "validated": validated, "detail": ob.results, "samples": [r.get("assumption_witness", {}) for r in ob.results],
        "cover": ["fp"], "translated": tr.translated + tr2.translated,
    }
    if cex is not None:
        out["cex"] = {"args": cex["model"], "kind": "violation", "message": cex["name"]}
    return out


def traffic_fp_replay(traffic: float = 0.0, speed: float = 100.0, bw: float = 100.0, load: float = 0.0, lbw: float = 100.0):
    from primaite.game.agent.observations.link_observation import LinkObservation
    from primaite.game.agent.observations.nic_observations import NICObservation

    nic = NICObservation(where=["x"], include_nmne=False)
    c = nic._categorise_traffic(traffic, {"speed": speed})
    check(0 <= c <= 10, f"NIC traffic category {c} outside Discrete(11) for traffic={traffic}, speed={speed} (link bandwidth {bw})")
    b = LinkObservation(where=["links", "l"]).observe({"links": {"l": {"bandwidth": lbw, "current_load": load}}})["PROTOCOLS"]["ALL"]
    check(0 <= b <= 10, f"link band {b} outside Discrete(11)")


HARNESSES = {
    "leaf_obs_in_space": {
        "fn": leaf_obs_in_space,
        "quick": [{"fixed": {"g": gi, "kind": "routed", "nmne": True}, "timeout": 280} for gi in range(len(GROUPS)) if gi not in (3, 6)]
        + [{"fixed": {"g": 3, "kind": "routed", "nmne": True, "b1": b}, "timeout": 400} for b in (False, True)]
        + [{"fixed": {"g": 2, "kind": "switched", "nmne": False}, "timeout": 200}]
        # observation configs that list more / fewer components than the num_* sizes (truncated / padded by the real code)
        + [{"fixed": {"g": gi, "kind": "switched", "nmne": True, "variant": v}, "timeout": 280} for v in ("surplus", "padded") for gi in (0, 1, 5)]
        # the observed ftp-client transferred a file in the step the state is taken from
        + [{"fixed": {"g": 0, "kind": "switched", "nmne": True, "variant": "surplus", "ftp": True}, "timeout": 280}]
        + [{"fixed": {"g": 6, "kind": "firewalled", "nmne": True, "variant": v}, "timeout": 280} for v in ("exact", "no_users")],
        "thorough": [{"fixed": {"g": gi, "kind": kd, "nmne": nm}, "timeout": 1200} for gi in range(len(GROUPS) - 1) for kd in ("routed", "switched") for nm in (True, False) if not (gi == 3 and kd == "switched")]
        + [{"fixed": {"g": gi, "kind": "routed", "nmne": True, "variant": v}, "timeout": 1200} for v in ("surplus", "padded") for gi in range(len(GROUPS) - 1)]
        + [{"fixed": {"g": 6, "kind": "firewalled", "nmne": nm, "variant": v}, "timeout": 1200} for v in ("exact", "no_users") for nm in (True, False)],
        "cover": ["grp_host_sw", "grp_host_fs", "grp_nic", "grp_acl", "grp_link", "grp_absent", "grp_fw"],
        "bounds": "per group every member of the real enums, counts as unbounded non-negative integers, ACL rule fields "
        "listed/unlisted/None at slot 0 or 3; thresholds of the generated scenario; observation config listing exactly / more / fewer components than its num_* sizes",
    },
    "env_obs_in_space": {
        "fn": env_obs_in_space,
        "quick": [
            {"fixed": {"k": 1, "kind": "switched", "nmne": False}, "timeout": 280},
            {"fixed": {"k": 1, "kind": "routed", "nmne": True}, "timeout": 280},
            {"fixed": {"k": 1, "kind": "routed", "nmne": True, "flatten": True}, "timeout": 500},
            {"fixed": {"k": 1, "kind": "firewalled", "nmne": True}, "timeout": 400},
            {"fixed": {"k": 1, "kind": "switched", "nmne": False, "variant": "surplus"}, "timeout": 280},
            {"fixed": {"k": 1, "kind": "switched", "nmne": False, "variant": "padded"}, "timeout": 280},
        ],
        "thorough": [{"fixed": {"k": 2, "kind": kd, "nmne": nm, "a0": a}, "timeout": 1500} for kd in ("switched", "routed") for nm in (True, False) for a in range(0, 54, 3)]
        + [{"fixed": {"k": 2, "kind": "switched", "nmne": True, "variant": v, "a0": a}, "timeout": 1500} for v in ("surplus", "padded") for a in (24, 39, 41)],
        "cover": ["env_done"],
        "bounds": {"quick": "k=1 step with every action of the map, M in {1,2}; switched, routed and firewall-with-DMZ topologies; NMNE capture on/off; nested and flattened", "thorough": "k=2, every third action as first action"},
    },
    "traffic_fp_smt": {
        "fn": traffic_fp_smt,
        "replay_fn": traffic_fp_replay,
        "kind": "smt",
        "quick": [{"fixed": {}, "timeout": 400}],
        "thorough": [{"fixed": {}, "timeout": 400}],
        "cover": ["fp"],
        "bounds": "all finite doubles: 0 <= traffic <= link bandwidth <= 1e12, NIC speed >= 1e-6; 0 <= load <= 1e12, bandwidth >= 1e-6",
    },
}

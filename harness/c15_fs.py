"""C15 - the file system stays structurally consistent under any sequence of requests / agent actions (Engine S).

Two harnesses on a real ``Computer`` inside a real ``Simulation`` (requests enter at ``Simulation.apply_request``):

* ``fs_step``  - inductive step: ONE operation from an arbitrary pre-state that satisfies the representation invariant
  written in ``_check_inv`` (every shape of "absent / live / deleted / deleted+live / deleted twice" for a file name
  and a folder name, counters / countdowns / durations / access counts as unbounded solver integers, every health
  member), after which the invariant must hold again and the operation-specific clause of the property must hold.
* ``fs_run``   - bounded run: n operations from the real initial state (fresh node, or a node whose files were
  declared at configuration time), invariant + clauses after every operation.

The oracle is relational (before/after snapshots of the live and deleted sets) and is written from the property
statement and docs/source/action_masking.rst; nothing of the file-system code is re-implemented.
"""
from __future__ import annotations

from vlib.chdriver import all_of, assume, check, cover, fail, pick, pick_int, rng
from vlib.fixtures import concrete, mk_host, new_sim, quiet

SOURCES = [
    "/repo/src/primaite/simulator/file_system/file_system.py",
    "/repo/src/primaite/simulator/file_system/folder.py",
    "/repo/src/primaite/simulator/file_system/file.py",
    "/repo/src/primaite/simulator/file_system/file_system_item_abc.py",
    "/repo/src/primaite/game/agent/actions/file.py",
    "/repo/src/primaite/game/agent/actions/folder.py",
]
ENCODED = [
    "primaite.simulator.file_system.file_system.FileSystem._init_request_manager (create/delete/restore/access/folder routes)",
    "FileSystem.create_file/create_folder/delete_file/delete_folder/restore_file/restore_folder/access_file/get_file/get_folder",
    "FileSystem.describe_state/pre_timestep/apply_timestep, FileSystem._FolderExistsValidator/_FolderNotDeletedValidator/_FileExistsValidator",
    "primaite.simulator.file_system.folder.Folder.add_file/remove_file/remove_file_by_name/remove_all_files/restore_file/restore/delete",
    "Folder.scan/repair/corrupt/check_hash/_restoring_timestep/_scan_timestep/describe_state, Folder._FileExistsValidator/_FileNotDeletedValidator",
    "primaite.simulator.file_system.file.File.scan/repair/corrupt/restore/delete/check_hash/describe_state",
    "primaite.simulator.file_system.file_system_item_abc.FileSystemItemABC._init_request_manager",
    "primaite.game.agent.actions.file.NodeFile{Create,Delete,Access,Scan,Repair,Corrupt,Restore,Checkhash}Action.form_request",
    "primaite.game.agent.actions.folder.NodeFolder{Create,Scan,Repair,Restore,Checkhash}Action.form_request",
    "primaite.simulator.core.RequestManager.__call__, Node request route 'file_system', Simulation.pre_timestep/apply_timestep",
]
ASSUMPTIONS = [
    "SysLog/PacketCapture/AgentLog methods are stubbed to no-ops (log text never feeds behaviour)",
    "names range over the folders {root, f, g} and files {a.txt, b.txt, c.txt}; g and c.txt are never part of a "
    "pre-state (never-created targets); the code compares names only with ==, so other names behave alike",
    "operations are the requests below 'file_system' (create/delete/restore file|folder, access, folder <verb>, "
    "folder/file <verb>, folder delete <file>) hand-written or formed by the agent action classes' form_request, and "
    "the tick (Simulation.pre_timestep + apply_timestep); FileSystem.move_file/copy_file and the *_by_id Python "
    "helpers have no request route and are not driven",
    "fs_step pre-states are built with the real create_file/delete_file/create_folder/delete_folder Python API "
    "(never with restore), then counters, countdowns, durations, access count and health members are overwritten "
    "with solver values: num_file_creations/deletions >= 0, duration >= 0 (unbounded), -1 <= countdown <= duration + 1 "
    "(a superset of what scan()/restore() and the ticks produce), num_access >= 0",
    "'refused' = any status other than success and no change of the partition, of any item field or of the "
    "counters; 'no-op' = success and no change of the partition",
    "restore addressed to a name that has a live item acts on the live item (repair); the property's 'restoring moves "
    "it back' clause is demanded when the name has no live item and at least one deleted item: exactly one of them "
    "moves back",
    "the reported state is keyed by name: deleted items that share a name are reported once; the check demands that "
    "the reported live entries are exactly the live items (names and count) and that the reported deleted names are "
    "exactly the names of the deleted items",
    "deleting the root folder may be refused (the code refuses it); if it is accepted it must be a proper move",
    "file health / folder health members range over the whole enum in the thorough tier; the quick tier pins them "
    "per job (GOOD/CORRUPT/RESTORING)",
]

NODE = "pc"
FOLDERS = ["root", "f", "g"]
NAMES = ["a.txt", "b.txt", "c.txt"]
VERBS = ["scan", "restore", "corrupt", "repair", "checkhash"]
PFX = ["network", "node", NODE, "file_system"]


# ------------------------------------------------------------------------------------------------- operation table
def _mk_ops():
    """(kind, folder, name, verb, force, via_action, level). level 0 = core alphabet used by the deep runs."""
    ops = [("tick", None, None, None, False, False, 0)]
    for F in FOLDERS:
        lf = 0 if F != "g" else 1
        ops.append(("create_folder", F, None, None, False, False, lf))
        ops.append(("delete_folder", F, None, None, False, False, lf))
        ops.append(("restore_folder", F, None, None, False, False, lf))
        for v in VERBS:
            ops.append(("folder_verb", F, None, v, False, False, max(lf, 0 if v in ("scan", "restore") else 1)))
        for N in NAMES:
            ln = max(lf, 0 if N == "a.txt" else 1)
            for force in (False, True):
                ops.append(("create_file", F, N, None, force, False, ln))
            ops.append(("delete_file", F, N, None, False, False, ln))
            ops.append(("folder_delete_file", F, N, None, False, False, 1))
            ops.append(("restore_file", F, N, None, False, False, ln))
            ops.append(("access", F, N, None, False, False, 1 if N != "a.txt" or F == "g" else 0))
            for v in VERBS:
                ops.append(("file_verb", F, N, v, False, False, max(ln, 0 if v in ("scan", "restore") else 1)))
    # the same requests formed by the agent action classes (folder f / file a.txt, plus one never-created target)
    for F, N in (("f", "a.txt"), ("g", "c.txt")):
        lv = 0 if F == "f" else 1
        for force in (False, True):
            ops.append(("create_file", F, N, None, force, True, lv))
        ops.append(("create_folder", F, None, None, False, True, lv))
        ops.append(("delete_file", F, N, None, False, True, 1))
        ops.append(("access", F, N, None, False, True, 1))
        for v in ("scan", "restore", "repair", "checkhash"):
            ops.append(("folder_verb", F, None, v, False, True, 1))
        for v in VERBS:
            ops.append(("file_verb", F, N, v, False, True, 1))
    return ops


OPS = _mk_ops()
CORE_OPS = [o for o in OPS if o[6] == 0]
# alphabet of the deepest runs: everything about f and f/a.txt, the file operations on root/a.txt, the tick
DEEP_OPS = [
    o
    for o in CORE_OPS
    if o[0] == "tick"
    or (o[1] == "f" and not (o[0] == "folder_verb" and o[3] == "scan") and not (o[0] == "create_folder" and o[5]))
    or (o[1] == "root" and o[0] in ("create_file", "delete_file", "restore_file") and not o[4])
]
ALPHABETS = {"full": OPS, "core": CORE_OPS, "deep": DEEP_OPS}

_FILE_ACTIONS = {
    "scan": "node-file-scan",
    "restore": "node-file-restore",
    "corrupt": "node-file-corrupt",
    "repair": "node-file-repair",
    "checkhash": "node-file-checkhash",
}
_FOLDER_ACTIONS = {
    "scan": "node-folder-scan",
    "restore": "node-folder-restore",
    "repair": "node-folder-repair",
    "checkhash": "node-folder-checkhash",
}


def _bpick(seq, idx):
    """Symbolic choice by bisection (log2(n) decisions instead of n)."""
    lo, hi = 0, len(seq) - 1
    while lo < hi:
        mid = (lo + hi) // 2
        if idx <= mid:
            hi = mid
        else:
            lo = mid + 1
    return seq[lo]


def _request(op):
    """The request for an operation: hand-written, or formed by the agent action class (via_action)."""
    kind, F, N, verb, force, via, _ = op
    if via:
        from primaite.game.agent.actions.manager import AbstractAction

        if kind == "create_file":
            name, kw = "node-file-create", dict(folder_name=F, file_name=N, force=force)
        elif kind == "create_folder":
            name, kw = "node-folder-create", dict(folder_name=F)
        elif kind == "delete_file":
            name, kw = "node-file-delete", dict(folder_name=F, file_name=N)
        elif kind == "access":
            name, kw = "node-file-access", dict(folder_name=F, file_name=N)
        elif kind == "folder_verb":
            name, kw = _FOLDER_ACTIONS[verb], dict(folder_name=F)
        elif kind == "file_verb":
            name, kw = _FILE_ACTIONS[verb], dict(folder_name=F, file_name=N)
        else:
            raise ValueError(kind)
        with concrete():
            cls = AbstractAction._registry[name]
            cfg = cls.ConfigSchema(node_name=NODE, **kw)
        return list(cls.form_request(cfg))
    if kind == "create_file":
        return PFX + ["create", "file", F, N, force]
    if kind == "create_folder":
        return PFX + ["create", "folder", F]
    if kind == "delete_file":
        return PFX + ["delete", "file", F, N]
    if kind == "folder_delete_file":
        return PFX + ["folder", F, "delete", N]
    if kind == "delete_folder":
        return PFX + ["delete", "folder", F]
    if kind == "restore_file":
        return PFX + ["restore", "file", F, N]
    if kind == "restore_folder":
        return PFX + ["restore", "folder", F]
    if kind == "access":
        return PFX + ["access", F, N]
    if kind == "folder_verb":
        return PFX + ["folder", F, verb]
    if kind == "file_verb":
        return PFX + ["folder", F, "file", N, verb]
    raise ValueError(kind)


def _op_text(op):
    kind, F, N, verb, force, via, _ = op
    s = kind + "(" + ", ".join(str(x) for x in (F, N, verb) if x is not None)
    if kind == "create_file":
        s += ", force=" + str(force)
    return s + (", via agent action)" if via else ")")


# ------------------------------------------------------------------------------------------------- observation
class World:
    def __init__(self, sim, pc):
        self.sim, self.pc, self.fs = sim, pc, pc.file_system
        self.t = 0
        self.known_folders = []  # every Folder object ever seen
        self.known_files = []  # (Folder, File) ever seen


def _build():
    quiet()
    sim = new_sim()
    pc = mk_host("computer", NODE, "192.168.1.2", start_up_duration=0, shut_down_duration=0)
    pc.power_on()
    sim.network.add_node(pc)
    return World(sim, pc)


def _all_folders(fs):
    out = list(fs.folders.values())
    for F in fs.deleted_folders.values():
        if not any(F is G for G in out):
            out.append(F)
    return out


def _all_files(F):
    out = list(F.files.values())
    for x in F.deleted_files.values():
        if not any(x is y for y in out):
            out.append(x)
    return out


def _partition(fs):
    """The live/deleted partition as sets of object identities."""
    files = {}
    for F in _all_folders(fs):
        files[id(F)] = (frozenset(id(x) for x in F.files.values()), frozenset(id(x) for x in F.deleted_files.values()))
    return {
        "lf": frozenset(id(F) for F in fs.folders.values()),
        "df": frozenset(id(F) for F in fs.deleted_folders.values()),
        "files": files,
    }


def _item_fields(it):
    base = [it.health_status, it.visible_health_status, it.revealed_to_red, it.deleted]
    if hasattr(it, "num_access"):
        base.append(it.num_access)
    else:
        base += [it.scan_countdown, it.red_scan_countdown, it.restore_countdown]
    return base


def _fields(fs):
    out = {}
    for F in _all_folders(fs):
        out[id(F)] = (F, _item_fields(F))
        for x in _all_files(F):
            out[id(x)] = (x, _item_fields(x))
    return out


def _same(a, b):
    if len(a) != len(b):
        return False
    for x, y in zip(a, b):
        if not (x is y or x == y):
            return False
    return True


def _live_folder(fs, name):
    for F in fs.folders.values():
        if F.name == name:
            return F
    return None


def _live_file(F, name):
    for x in F.files.values():
        if x.name == name:
            return x
    return None


def _check_inv(w: World, where: str):
    """The representation invariant = the state clauses of the property."""
    fs = w.fs
    # folders: each live or deleted, never both; flag <=> membership; live names unique
    for k, F in fs.folders.items():
        check(k == F.uuid, f"live folder keyed by a foreign id ({where})")
        check(k not in fs.deleted_folders, f"folder '{F.name}' is in both the live and the deleted set ({where})")
        check(not F.deleted, f"folder '{F.name}' is in the live set but flagged deleted ({where})")
    for k, F in fs.deleted_folders.items():
        check(k == F.uuid, f"deleted folder keyed by a foreign id ({where})")
        check(F.deleted, f"folder '{F.name}' is in the deleted set but not flagged deleted ({where})")
    lnames = [F.name for F in fs.folders.values()]
    check(len(set(lnames)) == len(lnames), f"two live folders share a name: {sorted(lnames)} ({where})")
    for F in _all_folders(fs):
        for k, x in F.files.items():
            check(k == x.uuid, f"live file keyed by a foreign id ({where})")
            check(k not in F.deleted_files, f"file '{F.name}/{x.name}' is in both the live and the deleted set ({where})")
            check(not x.deleted, f"file '{F.name}/{x.name}' is in the live set but flagged deleted ({where})")
        for k, x in F.deleted_files.items():
            check(k == x.uuid, f"deleted file keyed by a foreign id ({where})")
            check(x.deleted, f"file '{F.name}/{x.name}' is in the deleted set but not flagged deleted ({where})")
        fn = [x.name for x in F.files.values()]
        check(len(set(fn)) == len(fn), f"two live files in folder '{F.name}' share a name: {sorted(fn)} ({where})")
    # never neither: nothing that ever existed has left both sets
    for F in w.known_folders:
        check(any(F is G for G in _all_folders(fs)), f"folder '{F.name}' is neither live nor deleted ({where})")
    for F, x in w.known_files:
        check(any(x is y for y in _all_files(F)), f"file '{F.name}/{x.name}' is neither live nor deleted ({where})")
    for F in _all_folders(fs):
        if not any(F is G for G in w.known_folders):
            w.known_folders.append(F)
        for x in _all_files(F):
            if not any(x is y for _, y in w.known_files):
                w.known_files.append((F, x))
    # request routes in step with the live sets: a request addressed to a live name reaches the live item
    for F in fs.folders.values():
        rt = fs._folder_request_manager.request_types.get(F.name)
        check(rt is not None and rt.func is F._request_manager, f"request route of live folder '{F.name}' leads elsewhere ({where})")
        for x in F.files.values():
            rt = F._file_request_manager.request_types.get(x.name)
            check(
                rt is not None and rt.func is x._request_manager,
                f"request route of live file '{F.name}/{x.name}' leads elsewhere ({where})",
            )
    # the reported state lists exactly the live and the deleted items
    st = fs.describe_state()
    check(sorted(st["folders"].keys()) == sorted(lnames), f"reported live folders {sorted(st['folders'].keys())} != {sorted(lnames)} ({where})")
    dnames = set(F.name for F in fs.deleted_folders.values())
    check(set(st["deleted_folders"].keys()) == dnames, f"reported deleted folders {sorted(st['deleted_folders'].keys())} != {sorted(dnames)} ({where})")
    for F in fs.folders.values():
        sub = st["folders"][F.name]
        fn = sorted(x.name for x in F.files.values())
        check(sorted(sub["files"].keys()) == fn, f"reported live files of '{F.name}' {sorted(sub['files'].keys())} != {fn} ({where})")
        dn = set(x.name for x in F.deleted_files.values())
        check(set(sub["deleted_files"].keys()) == dn, f"reported deleted files of '{F.name}' {sorted(sub['deleted_files'].keys())} != {sorted(dn)} ({where})")
    for nm in dnames:
        same = [F for F in fs.deleted_folders.values() if F.name == nm]
        if len(same) == 1:
            sub = st["deleted_folders"][nm]
            check(
                set(sub["files"].keys()) == set(x.name for x in same[0].files.values())
                and set(sub["deleted_files"].keys()) == set(x.name for x in same[0].deleted_files.values()),
                f"reported content of deleted folder '{nm}' differs from its sets ({where})",
            )
    c, d = st["num_file_creations"], st["num_file_deletions"]
    check((c is fs.num_file_creations or c == fs.num_file_creations) and (d is fs.num_file_deletions or d == fs.num_file_deletions), f"reported counters differ ({where})")


# ------------------------------------------------------------------------------------------------- one operation
def _apply(w: World, op):
    kind, F, N, verb, force, via, _ = op
    fs = w.fs
    txt = _op_text(op)
    if kind == "tick":
        return _tick(w)
    LF = _live_folder(fs, F)
    lf = _live_file(LF, N) if (LF is not None and N is not None) else None
    del_files = [x for x in LF.deleted_files.values() if x.name == N] if (LF is not None and N is not None) else []
    del_folders = [G for G in fs.deleted_folders.values() if G.name == F]
    pre = _partition(fs)
    pre_fields = _fields(fs)
    pre_c, pre_d = fs.num_file_creations, fs.num_file_deletions
    pre_acc = lf.num_access if lf is not None else None
    req = _request(op)
    try:
        resp = w.sim.apply_request(req)
    except Exception as e:
        fail(f"{txt} raised {type(e).__name__}: {e}")
    status = resp.status
    check(status in ("success", "failure", "unreachable"), f"{txt} answered {status}")
    ok = status == "success"
    post = _partition(fs)
    post_fields = _fields(fs)
    _check_inv(w, "after " + txt)

    def unchanged_partition():
        return post["lf"] == pre["lf"] and post["df"] == pre["df"] and post["files"] == pre["files"]

    def fields_unchanged(except_ids=()):
        for i, (it, fl) in pre_fields.items():
            if i in except_ids:
                continue
            if i not in post_fields or not _same(fl, post_fields[i][1]):
                return it
        return None

    # deleted items are unavailable: whatever the request, an item that was deleted and still is, is untouched
    for i, (it, fl) in pre_fields.items():
        if it.deleted and fl[3] and i in post_fields:
            check(_same(fl, post_fields[i][1]), f"{txt} changed the deleted item '{it.name}'")
    # a refused request has no effect
    if not ok:
        check(unchanged_partition(), f"{txt} answered {status} but changed the live/deleted sets")
        bad = fields_unchanged()
        check(bad is None, lambda: f"{txt} answered {status} but changed item '{bad.name}'")
        check(
            (fs.num_file_creations is pre_c or fs.num_file_creations == pre_c)
            and (fs.num_file_deletions is pre_d or fs.num_file_deletions == pre_d),
            f"{txt} answered {status} but changed the per-tick counters",
        )

    if kind == "create_file":
        if LF is not None and lf is not None:
            cover("create_existing_file")
            if not force:
                check(unchanged_partition(), f"{txt} on an existing name changed the live/deleted sets (neither refused nor a no-op)")
            now = [x for x in LF.files.values() if x.name == N]
            check(len(now) == 1, f"{txt} on an existing name left {len(now)} live files of that name")
        else:
            cover("create_new_file")
            check(ok, f"{txt} of a new name answered {status}")
            if LF is not None:
                tgt = LF
                check(post["lf"] == pre["lf"], f"{txt} changed the live folders although '{F}' was live")
            else:
                newf = [G for G in fs.folders.values() if id(G) not in pre["lf"]]
                check(len(newf) == 1 and newf[0].name == F and id(newf[0]) not in pre_fields, f"{txt}: expected exactly one new live folder '{F}'")
                tgt = newf[0]
                check(post["lf"] == pre["lf"] | {id(tgt)}, f"{txt} changed other live folders")
            check(post["df"] == pre["df"], f"{txt} changed the deleted folders")
            old_live = pre["files"][id(tgt)][0] if id(tgt) in pre["files"] else frozenset()
            new = [x for x in tgt.files.values() if id(x) not in old_live]
            check(len(new) == 1 and new[0].name == N and id(new[0]) not in pre_fields, f"{txt}: expected exactly one new live file '{N}'")
            for G in _all_folders(fs):
                want = pre["files"].get(id(G), (frozenset(), frozenset()))
                if G is tgt:
                    want = (want[0] | {id(new[0])}, want[1])
                check(post["files"][id(G)] == want, f"{txt} changed other files (folder '{G.name}')")
            check(fs.num_file_creations == pre_c + 1, f"{txt} did not count one file creation")
    elif kind == "create_folder":
        if LF is not None:
            cover("create_existing_folder")
            check(unchanged_partition(), f"{txt} on an existing name changed the live/deleted sets (neither refused nor a no-op)")
        else:
            cover("create_new_folder")
            check(ok, f"{txt} of a new name answered {status}")
            newf = [G for G in fs.folders.values() if id(G) not in pre["lf"]]
            check(len(newf) == 1 and newf[0].name == F and id(newf[0]) not in pre_fields, f"{txt}: expected exactly one new live folder '{F}'")
            check(len(newf[0].files) == 0 and len(newf[0].deleted_files) == 0, f"{txt}: the new folder is not empty")
            check(post["lf"] == pre["lf"] | {id(newf[0])} and post["df"] == pre["df"], f"{txt} changed other folders")
            for G in _all_folders(fs):
                if G is not newf[0]:
                    check(post["files"][id(G)] == pre["files"][id(G)], f"{txt} changed files of '{G.name}'")
    elif kind in ("delete_file", "folder_delete_file"):
        if LF is not None and lf is not None:
            cover("delete_live_file")
            check(ok, f"{txt} of a live file answered {status}")
            check(post["lf"] == pre["lf"] and post["df"] == pre["df"], f"{txt} changed the folder sets")
            for G in _all_folders(fs):
                want = pre["files"][id(G)]
                if G is LF:
                    want = (want[0] - {id(lf)}, want[1] | {id(lf)})
                check(post["files"][id(G)] == want, f"{txt}: expected exactly that file to move to the deleted set (folder '{G.name}')")
            if kind == "delete_file":
                check(fs.num_file_deletions == pre_d + 1, f"{txt} did not count one file deletion")
        else:
            cover("delete_missing_file")
            check(not ok, f"{txt} of a file that is not live answered success")
    elif kind == "delete_folder":
        if LF is None:
            cover("delete_missing_folder")
            check(not ok, f"{txt} of a folder that is not live answered success")
        else:
            if F != "root":
                check(ok, f"{txt} of a live folder answered {status}")
            if ok:
                cover("delete_live_folder")
                check(post["lf"] == pre["lf"] - {id(LF)} and post["df"] == pre["df"] | {id(LF)}, f"{txt}: expected exactly that folder to move to the deleted set")
                for G in _all_folders(fs):
                    if G is not LF:
                        check(post["files"][id(G)] == pre["files"][id(G)], f"{txt} changed files of '{G.name}'")
    elif kind == "restore_file":
        if LF is not None and lf is not None:
            cover("restore_live_file")
            check(unchanged_partition(), f"{txt} on a live file changed the live/deleted sets")
        elif LF is not None and del_files:
            cover("restore_deleted_file")
            check(ok, f"{txt} of a deleted file answered {status}")
            check(post["lf"] == pre["lf"] and post["df"] == pre["df"], f"{txt} changed the folder sets")
            back = [x for x in del_files if id(x) in post["files"][id(LF)][0]]
            check(len(back) == 1, f"{txt}: {len(back)} of the {len(del_files)} deleted files of that name are live afterwards")
            for G in _all_folders(fs):
                want = pre["files"][id(G)]
                if G is LF:
                    want = (want[0] | {id(back[0])}, want[1] - {id(back[0])})
                check(post["files"][id(G)] == want, f"{txt}: expected exactly that file to move back to the live set (folder '{G.name}')")
        else:
            cover("restore_missing_file")
            check(not ok, f"{txt} of a file that never existed answered success")
    elif kind == "restore_folder":
        if LF is not None:
            cover("restore_live_folder")
            check(unchanged_partition(), f"{txt} on a live folder changed the live/deleted sets")
        elif del_folders:
            cover("restore_deleted_folder")
            check(ok, f"{txt} of a deleted folder answered {status}")
            back = [G for G in del_folders if id(G) in post["lf"]]
            check(len(back) == 1, f"{txt}: {len(back)} of the {len(del_folders)} deleted folders of that name are live afterwards")
            check(post["lf"] == pre["lf"] | {id(back[0])} and post["df"] == pre["df"] - {id(back[0])}, f"{txt}: expected exactly that folder to move back to the live set")
            for G in _all_folders(fs):
                if G is not back[0]:
                    check(post["files"][id(G)] == pre["files"][id(G)], f"{txt} changed files of '{G.name}'")
        else:
            cover("restore_missing_folder")
            check(not ok, f"{txt} of a folder that never existed answered success")
    elif kind == "access":
        if LF is not None and lf is not None:
            cover("access_live")
            check(ok, f"{txt} of a live file answered {status}")
            check(unchanged_partition(), f"{txt} changed the live/deleted sets")
            check(lf.num_access == pre_acc + 1, f"{txt} did not count one access")
            bad = fields_unchanged((id(lf),))
            check(bad is None, lambda: f"{txt} changed another item: '{bad.name}'")
        else:
            cover("access_unavailable")
            check(not ok, f"{txt} of a file that is not live answered success")
    elif kind == "folder_verb":
        if LF is not None:
            cover("folder_verb_live")
            check(unchanged_partition(), f"{txt} changed the live/deleted sets")
            if verb != "checkhash":
                check(ok, f"{txt} on a live folder answered {status}")
            mine = {id(LF)} | set(pre["files"][id(LF)][0]) | set(pre["files"][id(LF)][1])
            bad = fields_unchanged(mine)
            check(bad is None, lambda: f"{txt} changed an item outside the folder: '{bad.name}'")
        else:
            cover("folder_verb_unavailable")
            check(not ok, f"{txt} on a folder that is not live answered success")
    elif kind == "file_verb":
        if LF is not None and lf is not None:
            cover("file_verb_live")
            check(unchanged_partition(), f"{txt} changed the live/deleted sets")
            if verb != "checkhash":
                check(ok, f"{txt} on a live file answered {status}")
            bad = fields_unchanged((id(lf),))
            check(bad is None, lambda: f"{txt} changed another item: '{bad.name}'")
        else:
            cover("file_verb_unavailable")
            check(not ok, f"{txt} on a file that is not live answered success")
    else:
        raise ValueError(kind)


def _tick(w: World):
    fs = w.fs
    pre = _partition(fs)
    pre_fields = _fields(fs)
    w.t += 1
    try:
        w.sim.pre_timestep(w.t)
    except Exception as e:
        fail(f"pre_timestep raised {type(e).__name__}: {e}")
    check(fs.num_file_creations == 0 and fs.num_file_deletions == 0, "per-tick counters are not zero at the start of the tick")
    _check_inv(w, "after pre_timestep")
    mid = _partition(fs)
    check(mid["lf"] == pre["lf"] and mid["df"] == pre["df"] and mid["files"] == pre["files"], "pre_timestep changed the live/deleted sets")
    try:
        w.sim.apply_timestep(w.t)
    except Exception as e:
        fail(f"apply_timestep raised {type(e).__name__}: {e}")
    _check_inv(w, "after tick")
    post = _partition(fs)
    post_fields = _fields(fs)
    check(post["lf"] == pre["lf"] and post["df"] == pre["df"], "a tick changed the folder sets")
    for G in _all_folders(fs):
        a, b = pre["files"][id(G)], post["files"][id(G)]
        if id(G) in pre["df"]:
            check(a == b, f"a tick changed the files of deleted folder '{G.name}'")
        else:
            # the only structural effect of time: a folder restore completes and brings deleted files back
            check(a[0] <= b[0] and b[1] <= a[1], f"a tick deleted files of '{G.name}'")
            if a != b:
                cover("tick_restored_files")
    for i, (it, fl) in pre_fields.items():
        if it.deleted and fl[3]:
            check(_same(fl, post_fields[i][1]), f"a tick changed the deleted item '{it.name}'")
    cover("tick")


# ------------------------------------------------------------------------------------------------- pre-states
SLOT = ["absent", "live", "deleted", "deleted+live", "deleted twice"]
FSHAPE = ["absent", "live", "deleted", "deleted+live", "deleted twice"]


def _mk_slot(fs, folder: str, name: str, s: int):
    """Bring (folder, name) into slot state s with the real API (folder must be live)."""
    if s >= 1:
        fs.create_file(file_name=name, folder_name=folder)
    if s >= 2:
        fs.delete_file(folder_name=folder, file_name=name)
    if s >= 3:
        fs.create_file(file_name=name, folder_name=folder)
    if s >= 4:
        fs.delete_file(folder_name=folder, file_name=name)


def _mk_state(w: World, fsf: int, ra: int, fa: int, fb: bool, oa: bool):
    fs = w.fs
    _mk_slot(fs, "root", "a.txt", ra)
    if fsf == 1:
        fs.create_folder("f")
        _mk_slot(fs, "f", "a.txt", fa)
        if fb:
            _mk_slot(fs, "f", "b.txt", 1)
    elif fsf >= 2:
        fs.create_folder("f")
        if oa:
            _mk_slot(fs, "f", "a.txt", 1)
        fs.delete_folder("f")
        if fsf == 3:
            fs.create_folder("f")
            _mk_slot(fs, "f", "a.txt", fa)
            if fb:
                _mk_slot(fs, "f", "b.txt", 1)
        elif fsf == 4:
            fs.create_folder("f")
            if fa >= 1:
                _mk_slot(fs, "f", "a.txt", 1)
            if fb:
                _mk_slot(fs, "f", "b.txt", 1)
            fs.delete_folder("f")


def fs_step(
    op: int,
    fsf: int,
    ra: int,
    fa: int,
    fb: bool,
    oa: bool,
    c0: int,
    d0: int,
    rd: int,
    rc: int,
    sd: int,
    sc: int,
    na: int,
    fh: int,
    Fh: int,
    op_lo: int = 0,
    op_hi: int = 10**6,
):
    """One operation from an arbitrary pre-state satisfying the representation invariant (inductive step)."""
    from primaite.simulator.file_system.file_system_item_abc import FileSystemItemHealthStatus as H

    hi = min(op_hi, len(OPS) - 1)
    assume(
        all_of(
            rng(op, op_lo, hi),
            rng(fsf, 0, 4),
            rng(ra, 0, 4),
            rng(fa, 0, 4),
            rng(fh, 0, 5),
            rng(Fh, 0, 5),
            c0 >= 0,
            d0 >= 0,
            rd >= 0,
            rng(rc, -1, rd + 1),
            sd >= 0,
            rng(sc, -1, sd + 1),
            na >= 0,
        )
    )
    # canonical representatives only (parameters that do not exist in a shape are pinned)
    if fsf == 0:
        assume(all_of(fa == 0, not fb, not oa))
    elif fsf == 1:
        assume(not oa)
    elif fsf == 2:
        assume(all_of(fa == 0, not fb))
    elif fsf == 4:
        assume(fa <= 1)
    hs = list(H)
    fhealth, Fhealth = pick(hs, fh), pick(hs, Fh)
    # the shape is built by untraced concrete code: enumerate it here
    fsf, ra, fa = _bpick(range(5), fsf), _bpick(range(5), ra), _bpick(range(5), fa)
    fb, oa = (True if fb else False), (True if oa else False)
    with concrete():
        w = _build()
        _mk_state(w, fsf, ra, fa, fb, oa)
    fs = w.fs
    fs.num_file_creations = c0
    fs.num_file_deletions = d0
    for G in fs.folders.values():
        G.restore_duration, G.restore_countdown = rd, rc
        G.scan_duration, G.scan_countdown = sd, sc
        G.health_status = Fhealth
        for x in G.files.values():
            x.num_access = na
            x.health_status = fhealth
    _check_inv(w, "pre-state (harness)")
    cover("shape_" + FSHAPE[fsf].replace(" ", "_"))
    _apply(w, _bpick(OPS, op))
    cover("step")


def fs_run(
    o0: int,
    o1: int,
    o2: int,
    o3: int,
    o4: int,
    c0: int,
    rd: int,
    n_ops: int = 2,
    init: int = 0,
    alpha: str = "full",
    lo0: int = 0,
    hi0: int = 10**6,
):
    """n_ops operations from the real initial state; invariant and operation clauses after every one.

    init 0: fresh node (root folder only). init 1: root/a.txt, f/a.txt and f/b.txt exist (as declared in a config)."""
    table = ALPHABETS[alpha]
    idx = [o0, o1, o2, o3, o4][:n_ops]
    assume(all_of(c0 >= 0, rng(rd, 1, 2), rng(o0, lo0, hi0), *[rng(i, 0, len(table) - 1) for i in idx]))
    with concrete():
        w = _build()
        if init == 1:
            _mk_state(w, 1, 1, 1, True, False)
    fs = w.fs
    fs.num_file_creations = c0  # creations counted so far in this tick
    fs._default_folder_restore_duration = rd  # NodeCfg 'folder_restore_duration': applied to folders created from now on
    for G in fs.folders.values():
        G.restore_duration = rd
    _check_inv(w, "initial state (harness)")
    for i in idx:
        _apply(w, _bpick(table, i))
    cover("run")


_STEP_COVER = [
    "step", "tick", "create_existing_file", "create_new_file", "create_existing_folder", "create_new_folder",
    "delete_live_file", "delete_missing_file", "delete_live_folder", "delete_missing_folder", "restore_live_file",
    "restore_deleted_file", "restore_missing_file", "restore_live_folder", "restore_deleted_folder",
    "restore_missing_folder", "access_live", "access_unavailable", "folder_verb_live", "folder_verb_unavailable",
    "file_verb_live", "file_verb_unavailable",
]

def counters_power(ncre: int, ndel: int, ns: int, acc: int):
    """The per-tick counters start EVERY tick at zero - also on a node that was shut down (or reset) in the very tick in
    which files were created / deleted / accessed: solver-chosen numbers of creations, deletions and accesses, then the
    node is driven into a solver-chosen power state through its own API, then the next tick begins."""
    from harness.c05_requests import NODE_STATES, _set_node_state

    assume(all_of(rng(ncre, 0, 2), rng(ndel, 0, 2), rng(ns, 0, 3), rng(acc, 0, 2)))
    st = pick(NODE_STATES, ns)
    with concrete():
        w = _build()
        fs = w.fs
        fs.create_file(file_name="keep.txt", folder_name="f")
        w.sim.pre_timestep(1)
        w.sim.apply_timestep(1)
    n_c, n_d, n_a = pick_int(ncre, 0, 2), pick_int(ndel, 0, 2), pick_int(acc, 0, 2)
    with concrete():
        for i in range(n_c):
            fs.create_file(file_name=f"c{i}.txt", folder_name="f")
        for i in range(n_d):
            fs.create_file(file_name=f"d{i}.txt", folder_name="g")
            fs.delete_file(folder_name="g", file_name=f"d{i}.txt")
        for i in range(n_a):
            fs.access_file(folder_name="f", file_name="keep.txt")
        _set_node_state(w.pc, st)
    if n_c or n_d:
        check(fs.num_file_creations >= n_c and fs.num_file_deletions >= n_d, "harness: the counters did not count the operations of this tick")
    try:
        w.sim.pre_timestep(2)
    except Exception as e:
        fail(f"pre_timestep raised {type(e).__name__}: {e}")
    cover("counters_" + ("on" if st == "ON" else "not_on"))
    check(fs.num_file_creations == 0 and fs.num_file_deletions == 0, lambda: f"node {st}: the per-tick counters start the tick at creations={fs.num_file_creations}, deletions={fs.num_file_deletions}")
    state = fs.describe_state()
    check(state["num_file_creations"] == 0 and state["num_file_deletions"] == 0, lambda: f"node {st}: describe_state reports non-zero per-tick counters at the start of the tick")
    keep = fs.get_file(folder_name="f", file_name="keep.txt")
    check(keep.num_access == 0, lambda: f"node {st}: the file's per-tick access counter starts the tick at {keep.num_access}")


def _step_quick():
    g = {"fh": 1, "Fh": 1}
    jobs = [{"fixed": {"fsf": 0, "fh": 3, "Fh": 3}, "timeout": 400}]  # folder f absent, all five root/a.txt shapes
    jobs += [{"fixed": dict(g, fsf=1, ra=0, fb=fb), "timeout": 400} for fb in (False, True)]
    jobs += [{"fixed": {"fsf": 1, "ra": 0, "fb": False, "fh": a, "Fh": b}, "timeout": 400} for a, b in ((3, 4), (4, 3))]
    jobs += [{"fixed": dict(g, fsf=1, ra=r, fb=False), "timeout": 400} for r in (1, 2, 3, 4)]
    jobs += [{"fixed": {"fsf": 2, "oa": oa, "fh": 1, "Fh": 3}, "timeout": 400} for oa in (False, True)]
    jobs += [{"fixed": dict(g, fsf=3, ra=0, fb=fb, oa=oa), "timeout": 400} for fb, oa in ((False, False), (False, True), (True, True))]
    jobs += [{"fixed": dict(g, fsf=4, ra=0, fb=fb), "timeout": 400} for fb in (False, True)]
    return jobs


def _step_thorough():
    # every shape (185) with healthy items, one job per (folder shape, root/a.txt shape) ...
    jobs = [{"fixed": {"fsf": f, "ra": r, "fh": 1, "Fh": 1}, "timeout": 1500} for f in range(5) for r in range(5)]
    # ... and every (file health, folder health) member pair on the shapes where health is looked at
    jobs += [{"fixed": {"fsf": 1, "ra": 0, "fb": False, "fh": a, "Fh": b}, "timeout": 1500} for a in range(6) for b in range(6) if (a, b) != (1, 1)]
    jobs += [{"fixed": {"fsf": 3, "ra": 0, "fb": False, "oa": True, "Fh": b}, "timeout": 1500} for b in (0, 2, 3, 4, 5)]
    return jobs


HARNESSES = {
    "fs_step": {
        "fn": fs_step,
        "quick": _step_quick(),
        "thorough": _step_thorough(),
        "cover": _STEP_COVER + ["tick_restored_files"],
        "bounds": {
            "quick": "one operation (all %d: 3 folder names x 3 file names x 5 verbs, create with force F/T, agent-action "
            "forms, tick) from 77 pre-state shapes: folder f absent/deleted with root/a.txt in {absent, live, deleted, "
            "deleted+live, deleted twice}; f in {live, deleted+live, deleted twice} with f/a.txt in the five slot states, "
            "f/b.txt live or absent; f live with every root/a.txt slot; counters, countdowns, durations, access count "
            "unbounded ints; health pinned per job (GOOD, CORRUPT, RESTORING)" % len(OPS),
            "thorough": "all 185 shapes (f shape x root/a.txt slot x f/a.txt slot x f/b.txt x old-folder content) with GOOD "
            "items, plus all 36 (file health, folder health) member pairs on the live-folder shapes",
        },
    },
    "counters_power": {
        "fn": counters_power,
        "quick": [{"fixed": {}, "timeout": 200}],
        "thorough": [{"fixed": {}, "timeout": 400}],
        "cover": ["counters_on", "counters_not_on"],
        "bounds": "0-2 creations, 0-2 deletions, 0-2 accesses in one tick, then the node ON / SHUTTING_DOWN / OFF / BOOTING, then the next tick begins",
    },
    "fs_run": {
        "fn": fs_run,
        "quick": [{"fixed": {"n_ops": 2, "init": i, "alpha": "core"}, "timeout": 400} for i in (0, 1)],
        "thorough": [{"fixed": {"n_ops": 2, "init": i, "alpha": "full", "lo0": lo, "hi0": lo + 18}, "timeout": 1500} for i in (0, 1) for lo in range(0, len(OPS), 19)]
        + [{"fixed": {"n_ops": 3, "init": i, "alpha": "core", "lo0": lo, "hi0": lo + 3}, "timeout": 1500} for i in (0, 1) for lo in range(0, len(CORE_OPS), 4)]
        + [{"fixed": {"n_ops": 4, "init": 1, "alpha": "deep", "o0": o}, "timeout": 1800} for o in range(len(DEEP_OPS))],
        "cover": ["run", "tick", "create_existing_file", "delete_live_file", "restore_deleted_file"],
        "bounds": {
            "quick": "2 operations from the %d-operation core alphabet (folders root/f, file a.txt, verbs scan/restore, create "
            "force F/T and via agent action, tick) from a fresh node and from a node with root/a.txt, f/a.txt, f/b.txt; "
            "folder restore duration 1..2" % len(CORE_OPS),
            "thorough": "2 operations from the full %d-operation alphabet and 3 core operations (both initial states); 4 "
            "operations of the %d-operation deep alphabet from the populated node" % (len(OPS), len(DEEP_OPS)),
        },
    },
}

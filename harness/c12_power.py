"""C12 – node power state machine, driven through the request API on real nodes (Engine S)."""
from __future__ import annotations

from vlib.chdriver import all_of, assume, check, cover, fail, pick, rng
from vlib.fixtures import CallLog, concrete, mk_host, mk_node, new_sim, quiet, snap

OPS = ["tick", "shutdown", "startup", "reset", "other_request", "ping_in", "ping_out", "sw_api", "fs_scan", "svc_disable"]
NODE_TYPES = ["computer", "server", "switch", "router", "firewall", "wireless-router"]
STATES = ["ON", "SHUTTING_DOWN", "OFF", "BOOTING"]

SOURCES = [
    "/repo/src/primaite/simulator/network/hardware/base.py",
    "/repo/src/primaite/simulator/network/hardware/nodes/host/host_node.py",
    "/repo/src/primaite/simulator/network/hardware/nodes/network/router.py",
    "/repo/src/primaite/simulator/network/hardware/nodes/network/switch.py",
    "/repo/src/primaite/simulator/network/hardware/nodes/network/firewall.py",
    "/repo/src/primaite/simulator/system/software.py",
]
ENCODED = [
    "primaite.simulator.network.hardware.base.Node.power_on/power_off/reset/apply_timestep/pre_timestep",
    "primaite.simulator.network.hardware.base.Node._init_request_manager (+ _NodeIsOnValidator/_NodeIsOffValidator)",
    "primaite.simulator.network.hardware.base.WiredNetworkInterface.enable/disable/send_frame, Link.transmit_frame",
    "primaite.simulator.core.RequestManager.__call__",
    "HostNode/Router/Switch/Firewall/WirelessRouter.receive_frame, ICMP.ping, ARP, SessionManager (ping_in/ping_out ops)",
    "Service.start/stop, Application.run/close via Node._start_up_actions/_shut_down_actions and called directly (sw_api op); IOSoftware._can_perform_action",
]
ASSUMPTIONS = [
    "SysLog/PacketCapture/AgentLog methods are stubbed to no-ops; f-string rendering of non-symbolic objects uses the "
    "object's own __format__ (CrossHair shim) - log text never feeds behaviour",
    "timing convention taken from docs/source/simulation_components/network/base_hardware.rst: after the request the "
    "node is transitional at the end of d ticks and leaves on tick d+1; d=0 is instantaneous",
    "inductive harness: pre-state ranges over the representation invariant {non-ON => all interfaces disabled; "
    "SHUTTING_DOWN => 0<=shut_down_countdown<=sd, sd>=1; BOOTING => 0<=start_up_countdown<=su, su>=1, not resetting; "
    "OFF/ON => countdowns 0, not resetting; OFF/BOOTING => services stopped, applications closed}",
    "durations are symbolic ints in [0, dmax]; sequences longer than n_ops are covered only by the inductive harness",
]


def _build(ntype: str):
    """Node under test A (type ntype) wired to a peer computer B on 192.168.1.0/24."""
    quiet()
    sim = new_sim()
    net = sim.network
    b = mk_host("computer", "pc_b", "192.168.1.3", start_up_duration=0, shut_down_duration=0)
    b.power_on()
    net.add_node(b)
    if ntype in ("computer", "server"):
        a = mk_host(ntype, "node_a", "192.168.1.2", start_up_duration=0)
        a.power_on()
        net.add_node(a)
        net.connect(a.network_interface[1], b.network_interface[1])
        a_ip = "192.168.1.2"
    elif ntype == "switch":
        a = mk_node("switch", "node_a", start_up_duration=0, num_ports=4)
        a.power_on()
        net.add_node(a)
        net.connect(a.network_interface[1], b.network_interface[1])
        a_ip = None
    elif ntype in ("router", "wireless-router"):
        cfg = dict(start_up_duration=0)
        if ntype == "router":
            cfg["num_ports"] = 2
        else:
            cfg["airspace"] = net.airspace
        a = mk_node(ntype, "node_a", **cfg)
        a.power_on()
        net.add_node(a)
        if ntype == "router":
            a.configure_port(port=1, ip_address="192.168.1.2", subnet_mask="255.255.255.0")
            net.connect(a.network_interface[1], b.network_interface[1])
            a.enable_port(1)
        else:
            a.configure_router_interface("192.168.1.2", "255.255.255.0")
            net.connect(a.network_interface[2], b.network_interface[1])
            a.network_interface[2].enable()
        from primaite.simulator.network.hardware.nodes.network.router import ACLAction

        a.acl.add_rule(action=ACLAction.PERMIT, position=1)
        a_ip = "192.168.1.2"
    elif ntype == "firewall":
        a = mk_node("firewall", "node_a", start_up_duration=0)
        a.power_on()
        net.add_node(a)
        a.configure_internal_port("192.168.1.2", "255.255.255.0")
        net.connect(a.internal_port, b.network_interface[1])
        a.internal_port.enable()
        from primaite.simulator.network.hardware.nodes.network.router import ACLAction

        for acl in (a.internal_inbound_acl, a.internal_outbound_acl):
            acl.add_rule(action=ACLAction.PERMIT, position=1)
        a.acl.add_rule(action=ACLAction.PERMIT, position=1)
        a_ip = "192.168.1.2"
    else:
        raise ValueError(ntype)
    # a folder with a file, so that a timed file-system operation (folder scan) can be pending when the node goes down
    a.file_system.create_file(file_name="a.txt", folder_name="docs")
    log = CallLog()
    for nic in a.network_interface.values():
        log.wrap(nic, "send_frame", "a_send")
    log.wrap(a.session_manager, "receive_frame", "a_sm_recv")
    wired = [n for n in a.network_interface.values() if getattr(n, "_connected_link", None) is not None]
    return sim, a, b, a_ip, log, wired


def _other_request(ntype: str):
    if ntype in ("computer", "server"):
        return ["file_system", "create", "folder", "vfolder"]
    return ["os", "scan"]


class Ref:
    """Reference power state machine (from the property statement + base_hardware.rst)."""

    def __init__(self, sd, su, st="ON", cnt=0, resetting=False):
        self.sd, self.su, self.st, self.cnt, self.resetting = sd, su, st, cnt, resetting
        self.disabled = set()  # services disabled by request: they stay DISABLED through a power cycle

    def _start(self):
        if self.su <= 0:
            self.st, self.cnt = "ON", 0
        else:
            self.st, self.cnt = "BOOTING", self.su

    def _reach_off(self):
        self.st, self.cnt = "OFF", 0
        if self.resetting:
            self.resetting = False
            self._start()

    def tick(self):
        if self.st == "BOOTING":
            if self.cnt > 0:
                self.cnt -= 1
            else:
                self.st = "ON"
        elif self.st == "SHUTTING_DOWN":
            if self.cnt > 0:
                self.cnt -= 1
            else:
                self._reach_off()

    def shutdown(self, reset: bool) -> bool:
        if self.st != "ON":
            return False
        if reset:
            self.resetting = True
        if self.sd <= 0:
            self._reach_off()
        else:
            self.st, self.cnt = "SHUTTING_DOWN", self.sd
        return True

    def startup(self) -> bool:
        if self.st != "OFF":
            return False
        self._start()
        return True


def _fs_progress(a):
    """Everything a timed file-system operation changes: countdowns, visible and true health, deleted flags."""
    out = []
    fs = a.file_system
    for f in list(fs.folders.values()) + list(fs.deleted_folders.values()):
        files = tuple(sorted((x.name, x.health_status.name, x.visible_health_status.name, bool(x.deleted)) for x in list(f.files.values()) + list(f.deleted_files.values())))
        out.append((f.name, getattr(f, "scan_countdown", None), getattr(f, "restore_countdown", None), f.health_status.name, f.visible_health_status.name, bool(f.deleted), files))
    return sorted(out, key=str)


def _apply(op: str, ref: Ref, sim, a, b, a_ip, log, wired, ntype: str, t: int) -> int:
    pre = ref.st
    pre_on = pre == "ON"
    log.clear()
    if op == "tick":
        with concrete():
            fs_before = _fs_progress(a)
        t += 1
        sim.pre_timestep(t)
        sim.apply_timestep(t)
        ref.tick()
        if not pre_on:
            check(log.count("a_send") == 0, f"{pre} node emitted a frame during a tick")
            if ref.st != "ON":  # (a tick in which the node reaches ON may already run its software)
                with concrete():
                    fs_after = _fs_progress(a)
                check(fs_before == fs_after, lambda: f"file-system work (scan / restore countdowns, visible health) advanced during a tick on a node that was {pre} and is {ref.st}")
    elif op == "svc_disable":
        # an early-installed service is disabled by request (it must stay disabled, and must not keep the services
        # installed after it from coming back when the node returns to ON)
        names = [x.name for x in a.services.values()]
        target = next((n for n in ("dns-client", "ntp-client") if n in names), None) or next((n for n in names if n not in ("arp", "icmp")), None)
        if target is not None:
            resp = sim.apply_request(["network", "node", "node_a", "service", target, "disable"])
            if pre_on:
                if resp.status == "success":
                    ref.disabled.add(target)
                    cover("svc_disabled")
            else:
                check(resp.status == "failure", f"service disable on a {pre} node answered {resp.status}")
    elif op == "fs_scan":
        # start a timed folder scan (3 ticks by default) and make the file's true health differ from its visible one
        resp = sim.apply_request(["network", "node", "node_a", "file_system", "folder", "docs", "scan"])
        if pre_on:
            check(resp.status == "success", f"folder scan on an ON node answered {resp.status}")
            with concrete():
                a.file_system.get_file(folder_name="docs", file_name="a.txt").corrupt()
            cover("fs_scan_started")
        else:
            check(resp.status == "failure", f"folder scan on a {pre} node answered {resp.status}")
    elif op in ("shutdown", "reset"):
        resp = sim.apply_request(["network", "node", "node_a", op])
        ok = ref.shutdown(op == "reset")
        check(resp.status == ("success" if ok else "failure"), f"{op} on {pre} node answered {resp.status}")
    elif op == "startup":
        resp = sim.apply_request(["network", "node", "node_a", "startup"])
        ok = ref.startup()
        check(resp.status == ("success" if ok else "failure"), f"startup on {pre} node answered {resp.status}")
    elif op == "other_request":
        with concrete():
            before = snap(a)
        resp = sim.apply_request(["network", "node", "node_a"] + _other_request(ntype))
        if pre_on:
            check(resp.status == "success", f"request on ON node answered {resp.status}")
        else:
            check(resp.status == "failure", f"request on {pre} node answered {resp.status}")
            with concrete():
                after = snap(a)
            check(before == after, "refused request changed node state")
    elif op == "ping_in":
        if a_ip is not None:
            ok = b.ping(a_ip, pings=1)
            if not pre_on:
                check(not ok, f"ping to a {pre} node succeeded")
                check(log.count("a_sm_recv") == 0, f"{pre} node handed an incoming frame to its session manager")
                check(log.count("a_send") == 0, f"{pre} node emitted a frame")
            else:
                cover("ping_in_on")
                check(ok, "ping to an ON node over an enabled link failed")
    elif op == "ping_out":
        ok = a.ping("192.168.1.3", pings=1)
        if not pre_on:
            check(not ok, f"ping from a {pre} node succeeded")
            check(log.count("a_send") == 0, f"{pre} node emitted a frame")
    elif op == "sw_api":
        # the software's own API (what scripted red agents, install hooks and other software call directly, without
        # going through the node's request gate): on a node that is not ON it does nothing
        before_sw = {x.name: x.operating_state.name for x in list(a.services.values()) + list(a.applications.values())}
        for svc in list(a.services.values()):
            started = svc.start()
            if not pre_on:
                check(not started, f"service {svc.name}.start() succeeded on a {pre} node")
        for app in list(a.applications.values()):
            app.run()
        for nic in list(a.network_interface.values()):
            nic.enable()  # wired and wireless: the interface API is refused on a node that is not ON (checked below: no interface enabled)
        after_sw = {x.name: x.operating_state.name for x in list(a.services.values()) + list(a.applications.values())}
        if not pre_on:
            cover("sw_api_not_on")
            check(before_sw == after_sw, lambda: f"software was started through its API on a {pre} node: " + str(sorted(k for k in after_sw if after_sw[k] != before_sw.get(k))))
        check(log.count("a_send") == 0 or pre_on, f"{pre} node emitted a frame")
    st = ref.st
    real = a.operating_state
    check(
        real.name == st,
        lambda: f"after {op} from {pre}: node is {real.name}, reference says {st} (sd={ref.sd}, su={ref.su})",
    )
    cover("state_" + st)
    if st != "ON":
        for nic in a.network_interface.values():
            check(not nic.enabled, f"interface enabled while node is {st} (after {op} from {pre})")
    else:
        for nic in wired:
            check(nic.enabled, f"wired interface not enabled although node is ON (after {op} from {pre})")
    if st == "OFF":
        for svc in a.services.values():
            check(
                svc.operating_state.name not in ("RUNNING", "PAUSED"),
                f"service {svc.name} {svc.operating_state.name} on OFF node",
            )
        for app in a.applications.values():
            check(app.operating_state.name != "RUNNING", f"application {app.name} RUNNING on OFF node")
    if st == "ON" and not pre_on:
        cover("returned_to_on")
        for svc in a.services.values():
            if svc.name in ref.disabled:
                check(svc.operating_state.name == "DISABLED", f"service {svc.name}, disabled by request, is {svc.operating_state.name} after return to ON")
                continue
            check(
                svc.operating_state.name == "RUNNING",
                lambda: f"service {svc.name} is {svc.operating_state.name} after return to ON" + (f" (services disabled by request: {sorted(ref.disabled)})" if ref.disabled else ""),
            )
        for app in a.applications.values():
            check(
                app.operating_state.name == "RUNNING",
                f"application {app.name} is {app.operating_state.name} after return to ON",
            )
    return t


def power_fsm(
    sd: int,
    su: int,
    op0: int,
    op1: int,
    op2: int,
    op3: int,
    op4: int,
    n_ops: int = 3,
    dmax: int = 2,
    ntype: str = "computer",
):
    """n_ops operations from the real initial (ON) state; compared step by step with the reference FSM."""
    ops = [op0, op1, op2, op3, op4][:n_ops]
    assume(all_of(rng(sd, 0, dmax), rng(su, 0, dmax), *[rng(o, 0, len(OPS) - 1) for o in ops]))
    with concrete():
        sim, a, b, a_ip, log, wired = _build(ntype)
    a.config.shut_down_duration = sd
    a.config.start_up_duration = su
    ref = Ref(sd, su)
    t = 0
    for opi in ops:
        t = _apply(pick(OPS, opi), ref, sim, a, b, a_ip, log, wired, ntype, t)


def power_step(sd: int, su: int, s0: int, c0: int, r0: bool, op: int, dmax: int = 3, ntype: str = "computer"):
    """One operation from an ARBITRARY pre-state satisfying the representation invariant, then ticks until the
    node settles (at most dmax+dmax+3): inductive step + timing of the remaining transition."""
    assume(all_of(rng(sd, 0, dmax), rng(su, 0, dmax), rng(s0, 0, 3), rng(c0, 0, dmax), rng(op, 0, len(OPS) - 1)))
    st0 = pick(STATES, s0)
    with concrete():
        sim, a, b, a_ip, log, wired = _build(ntype)
        # drive the real node into the pre-state with the real API (concrete durations), counters overwritten below
        if st0 == "SHUTTING_DOWN":
            a.config.shut_down_duration = 1
            a.power_off()
        elif st0 in ("OFF", "BOOTING"):
            a.config.shut_down_duration = 0
            a.power_off()
            if st0 == "BOOTING":
                a.config.start_up_duration = 1
                a.power_on()
        check(a.operating_state.name == st0, "harness could not establish the pre-state")
    a.config.shut_down_duration = sd
    a.config.start_up_duration = su
    if st0 == "SHUTTING_DOWN":
        assume(all_of(sd >= 1, c0 <= sd))
        a.config.shut_down_countdown = c0
        a.config.is_resetting = r0
        ref = Ref(sd, su, st0, c0, r0)
    elif st0 == "BOOTING":
        assume(all_of(su >= 1, c0 <= su, not r0))
        a.config.start_up_countdown = c0
        ref = Ref(sd, su, st0, c0, False)
    else:
        assume(all_of(c0 == 0, not r0))
        ref = Ref(sd, su, st0, 0, False)
    t = _apply(pick(OPS, op), ref, sim, a, b, a_ip, log, wired, ntype, 0)
    # the rest of the transition follows the reference timing tick by tick
    for _ in range(2 * dmax + 3):
        if ref.st in ("ON", "OFF"):
            break
        t = _apply("tick", ref, sim, a, b, a_ip, log, wired, ntype, t)
    check(ref.st in ("ON", "OFF"), "reference did not settle (harness bound too small)")
    cover("settled_" + ref.st)


HARNESSES = {
    "power_fsm": {
        "fn": power_fsm,
        "quick": [
            {"fixed": {"n_ops": 2, "dmax": 2, "ntype": "computer"}, "timeout": 200},
            {"fixed": {"n_ops": 2, "dmax": 2, "ntype": "router"}, "timeout": 200},
            {"fixed": {"n_ops": 2, "dmax": 1, "ntype": "wireless-router"}, "timeout": 280},
            # a timed folder scan is started first, so that file-system work is pending when the node goes down
            {"fixed": {"n_ops": 3, "dmax": 2, "ntype": "computer", "op0": 8}, "timeout": 280},
            # an early-installed service is disabled first, then the node is power-cycled (su=0 brings it back within the job)
            {"fixed": {"n_ops": 3, "dmax": 1, "ntype": "computer", "op0": 9}, "timeout": 280},
            {"fixed": {"n_ops": 3, "dmax": 1, "ntype": "router", "op0": 9}, "timeout": 280},
        ],
        "thorough": [
            {"fixed": {"n_ops": 4, "dmax": 2, "ntype": nt, "op0": o0}, "timeout": 1500}
            for nt in ("computer", "router", "switch", "firewall")
            for o0 in (1, 3)
        ]
        + [{"fixed": {"n_ops": 3, "dmax": 2, "ntype": nt}, "timeout": 1200} for nt in ("server", "wireless-router")],
        "cover": ["state_ON", "state_OFF", "state_SHUTTING_DOWN", "returned_to_on", "fs_scan_started"],
        "bounds": {
            "quick": "n_ops=2 ops (out of 10: tick, shutdown, startup, reset, another request, ping in/out, software/NIC API calls, file-system scan, service disable) from the initial ON state, durations 0..2, node types computer, router and wireless router; n_ops=3 with the first op fixed to a file-system scan (computer) or a service disable (computer, router)",
            "thorough": "n_ops=4 (first op fixed to shutdown/reset) durations 0..2 for computer/router/switch/firewall; "
            "n_ops=3 for server/wireless-router",
        },
    },
    "power_step": {
        "fn": power_step,
        "quick": [{"fixed": {"dmax": 2, "ntype": nt}, "timeout": 200} for nt in ("computer", "switch", "firewall")],
        "thorough": [{"fixed": {"dmax": 4, "ntype": nt}, "timeout": 1500} for nt in NODE_TYPES],
        "cover": ["settled_ON", "settled_OFF", "state_BOOTING", "returned_to_on", "sw_api_not_on"],
        "bounds": {
            "quick": "every pre-state in the invariant with countdown/durations 0..2, one op + settle; 3 node types",
            "thorough": "countdown/durations 0..4, all six node types",
        },
    },
}

"""C17 - database service: password-gated connections, connection-gated queries, restorable data (Engine S).

Three layers, all executing the real PrimAITE classes on real nodes:

* ``db_gate`` / ``db_connect`` / ``db_sql`` / ``db_disconnect``: inductive step of ``DatabaseService.receive`` from an
  ARBITRARY pre-state (every member of the node / service / software-health / file-health enums, any subset of the
  issued connections still open, any ``max_sessions``), one payload of every kind, oracle written from the property
  statement and docs/source/simulation_components/system/services/database_service.rst.
* ``client_step``: ``DatabaseClient`` bookkeeping (connect / query / disconnect / uninstall / server-led disconnect)
  against a transport stub whose replies are chosen by the solver.
* ``db_session`` / ``db_restore`` / ``db_redapp``: bounded runs from the real initial state over a real network (two
  clients, database server, backup server, router with ACL): free operation sequences, the backup / damage / block /
  restore scenarios, and the red applications (ransomware script, data manipulation bot) as sources of the queries.
"""
from __future__ import annotations

from vlib.chdriver import all_of, assume, check, cover, fail, pick, rng
from vlib.fixtures import concrete, mk_host, mk_node, new_sim, quiet

SOURCES = [
    "/repo/src/primaite/simulator/system/services/database/database_service.py",
    "/repo/src/primaite/simulator/system/applications/database_client.py",
    "/repo/src/primaite/simulator/system/software.py",
    "/repo/src/primaite/simulator/system/services/service.py",
    "/repo/src/primaite/simulator/system/applications/application.py",
    "/repo/src/primaite/simulator/system/services/ftp/ftp_client.py",
    "/repo/src/primaite/simulator/system/services/ftp/ftp_server.py",
    "/repo/src/primaite/simulator/system/services/ftp/ftp_service.py",
    "/repo/src/primaite/simulator/system/core/software_manager.py",
    "/repo/src/primaite/simulator/system/core/session_manager.py",
    "/repo/src/primaite/simulator/file_system/file_system.py",
    "/repo/src/primaite/simulator/system/applications/red_applications/data_manipulation_bot.py",
    "/repo/src/primaite/simulator/system/applications/red_applications/ransomware_script.py",
]
ENCODED = [
    "primaite.simulator.system.services.database.database_service.DatabaseService.receive/_process_connect/"
    "_process_sql/send/backup_database/restore_backup/apply_timestep/_update_fix_status",
    "primaite.simulator.system.software.IOSoftware.add_connection/terminate_connection/connections/_can_perform_action, "
    "Software.fix/_update_fix_status",
    "primaite.simulator.system.services.service.Service._can_perform_action/stop/start/pause/resume/restart/"
    "apply_timestep + the service request manager (stop/start/pause/resume/restart/fix requests)",
    "primaite.simulator.system.applications.database_client.DatabaseClient.get_new_connection/_connect/_query/query/"
    "_disconnect/uninstall/receive/execute, DatabaseClientConnection.query/disconnect",
    "primaite.simulator.system.services.ftp.FTPClient.send_file/request_file/_connect_to_server, FTPServer.receive/"
    "_process_ftp_command, FTPServiceABC._store_data/_retrieve_data/_send_data (db_session, db_restore)",
    "SoftwareManager/SessionManager send+receive, NIC/Link/Switch/Router (+ACL) frame delivery, Node power requests "
    "(db_session, db_restore)",
    "FileSystem.create_file/copy_file/delete_file/delete_folder/get_file as used by backup/restore",
    "primaite.simulator.system.applications.red_applications.ransomware_script.RansomwareScript.attack/"
    "_perform_ransomware_encrypt, data_manipulation_bot.DataManipulationBot.attack/_perform_data_manipulation (db_redapp)",
]
ASSUMPTIONS = [
    "SysLog/PacketCapture methods are stubbed to no-ops (log text never feeds behaviour)",
    "step harnesses (db_gate/db_connect/db_sql/db_disconnect): the payload is handed to DatabaseService.receive with "
    "the real inbound frame + session of a real earlier exchange; the reply is observed at "
    "SoftwareManager.send_payload_to_session_manager of the server node (recorded, not transmitted)",
    "step harnesses pre-state = representation invariant {database.db in folder 'database' has any health of the enum "
    "or is deleted; _connections is any subset of two connections really issued to clients A and B; one further id "
    "was issued and closed; max_sessions any integer; node/service/software-health any enum member}; NIC state is "
    "left enabled for every node state (weaker than the real invariant, so the step is proved for more states)",
    "well-formed payloads only: a dict with the keys the client writes (type/password/connection_request_id, "
    "type/sql/uuid/connection_id, type/connection_id), or a non-database payload; passwords from {None,'p','q'}; "
    "connection ids from {A's, B's, a closed one, a never-issued one, None}",
    "client_step: the network under the client is replaced by a stub that answers each outgoing payload with a "
    "solver-chosen reply (or none) delivered through DatabaseClient.receive",
    "db_session/db_restore: link bandwidth is raised to 10^9 Mbit so that capacity (property C18) never drops a "
    "5 MB backup transfer; ARP caches are warmed by one concrete exchange before the symbolic part",
    "liveness is only demanded in the plainly healthy case (service RUNNING on an ON node, software health GOOD, "
    "not at capacity, right password / open connection, path open); elsewhere only the 'only if' direction is checked",
    "SELECT on CORRUPT data must deliver no data (response 'data' not True) - the statement only makes reads of "
    "COMPROMISED data fail outright (tests/integration_tests/system/red_applications/test_ransomware_script.py "
    "documents that a SELECT on encrypted data still answers with an empty data field)",
    "db_redapp: DataManipulationBot port-scan and data-manipulation probabilities are configured to 1.0 (its "
    "randomness is property C19's subject)",
    "timing of restart/fix/power transitions is not asserted here (C12/C13): pre-states are read from the real "
    "objects before every operation and the oracle is conditional on them",
]

PASSWORDS = [None, "p", "q"]
QUERIES = ["SELECT", "INSERT", "DELETE", "ENCRYPT", "SELECT * FROM pg_stat_activity", "DROP TABLE users"]
DB_IP, BK_IP, A_IP, B_IP = "192.168.1.10", "192.168.1.11", "192.168.1.2", "192.168.1.3"


# ---------------------------------------------------------------------------------------------------- builders
def _lan(with_backup: bool = False):
    """Switch + database server + clients A and B (+ backup server running an FTP server)."""
    from ipaddress import IPv4Address

    from primaite.simulator.system.applications.database_client import DatabaseClient
    from primaite.simulator.system.services.database.database_service import DatabaseService
    from primaite.simulator.system.services.ftp.ftp_server import FTPServer

    quiet()
    sim = new_sim()
    net = sim.network
    sw = mk_node("switch", "sw", start_up_duration=0, num_ports=4)
    sw.power_on()
    net.add_node(sw)
    srv = mk_host("server", "db", DB_IP, start_up_duration=0, shut_down_duration=0)
    ca = mk_host("computer", "ca", A_IP, start_up_duration=0, shut_down_duration=0)
    cb = mk_host("computer", "cb", B_IP, start_up_duration=0, shut_down_duration=0)
    hosts = [srv, ca, cb]
    bk = None
    if with_backup:
        bk = mk_host("server", "bk", BK_IP, start_up_duration=0, shut_down_duration=0)
        hosts.append(bk)
    for i, h in enumerate(hosts):
        h.power_on()
        net.add_node(h)
        net.connect(sw.network_interface[i + 1], h.network_interface[1])
    for link in net.links.values():
        link.bandwidth = 10**9
    srv.software_manager.install(DatabaseService)
    svc = srv.software_manager.software["database-service"]
    if with_backup:
        svc.configure_backup(IPv4Address(BK_IP))
        bk.software_manager.install(FTPServer)
    clients = []
    for c in (ca, cb):
        c.software_manager.install(DatabaseClient)
        cl = c.software_manager.software["database-client"]
        cl.configure(server_ip_address=IPv4Address(DB_IP))
        cl.run()
        clients.append(cl)
    return sim, srv, svc, ca, cb, clients[0], clients[1], bk


class _Pre:
    """Concrete fixture for the step harnesses: real service with two issued+open connections (A's, B's), one issued
    and closed id, and the real inbound (session id, frame) of each client."""


def _step_fixture():
    sim, srv, svc, ca, cb, cla, clb, _ = _lan()
    seen = []
    real_receive = svc.receive

    def spy(payload, session_id, **kw):
        seen.append((session_id, kw.get("frame")))
        return real_receive(payload=payload, session_id=session_id, **kw)

    object.__setattr__(svc, "receive", spy)
    conn_a = cla.get_new_connection()
    sess_a = seen[-1]
    conn_b = clb.get_new_connection()
    sess_b = seen[-1]
    conn_c = cla.get_new_connection()
    conn_c.disconnect()
    object.__delattr__(svc, "receive")
    p = _Pre()
    p.sim, p.srv, p.svc = sim, srv, svc
    p.id_a, p.id_b, p.id_closed = conn_a.connection_id, conn_b.connection_id, conn_c.connection_id
    p.sess = [sess_a, sess_b]
    p.ips = [sess_a[1].ip.src_ip_address, sess_b[1].ip.src_ip_address]
    ok = (
        set(svc.connections) == {p.id_a, p.id_b}
        and str(p.ips[0]) == A_IP
        and str(p.ips[1]) == B_IP
        and svc.db_file is not None
    )
    if not ok:
        raise RuntimeError("step fixture could not be established")
    p.sent = []

    def record(payload, dest_ip_address=None, src_port=None, dest_port=None, ip_protocol=None, session_id=None):
        p.sent.append((payload, session_id, dest_ip_address))
        return True

    srv.software_manager.send_payload_to_session_manager = record
    return p


def _file_state(svc):
    """(exists, health name) of database/database.db as the service sees it."""
    f = svc.file_system.get_file(folder_name="database", file_name="database.db")
    if f is None:
        return (False, None)
    return (True, f.health_status.name)


def _set_pre_state(p, ns, st, hs, fh, has_a, has_b, ms, pws):
    from primaite.simulator.file_system.file_system_item_abc import FileSystemItemHealthStatus
    from primaite.simulator.network.hardware.node_operating_state import NodeOperatingState
    from primaite.simulator.system.services.service import ServiceOperatingState
    from primaite.simulator.system.software import SoftwareHealthState

    svc, srv = p.svc, p.srv
    node_state = pick(list(NodeOperatingState), ns)
    svc_state = pick(list(ServiceOperatingState), st)
    health = pick(list(SoftwareHealthState), hs)
    fhs = list(FileSystemItemHealthStatus)
    fstate = pick(fhs + ["deleted"], fh)
    password = pick(PASSWORDS, pws)
    with concrete():
        if fstate == "deleted":
            svc.file_system.delete_file(folder_name="database", file_name="database.db")
        else:
            svc.db_file.health_status = fstate
        if not has_a:
            svc._connections.pop(p.id_a)
        if not has_b:
            svc._connections.pop(p.id_b)
        svc.config.db_password = password
        svc.health_state_actual = health
        svc.operating_state = svc_state
        srv.operating_state = node_state
    svc.max_sessions = ms
    if health.name == "FIXING":
        svc._fixing_countdown = 2
    live = set()
    if has_a:
        live.add(p.id_a)
    if has_b:
        live.add(p.id_b)
    return node_state.name, svc_state.name, health.name, password, live


def _deliver(p, payload, from_b):
    sid, frame = p.sess[1 if from_b else 0]
    try:
        ret = p.svc.receive(payload=payload, session_id=sid, frame=frame, from_network_interface=None)
    except Exception as e:  # totality: a well-formed payload must never make the server raise
        fail(f"DatabaseService.receive raised {type(e).__name__}: {e}")
    return ret, sid


def _only_reply(p, sid):
    check(len(p.sent) == 1, f"expected exactly one reply, service sent {len(p.sent)}")
    payload, session_id, dest = p.sent[0]
    check(session_id == sid and dest is None, "reply was not sent back on the session the request came from")
    check(isinstance(payload, dict) and "status_code" in payload, "reply carries no status_code")
    return payload


# ------------------------------------------------------------------------------------------------ step harnesses
def db_gate(ns: int, st: int, hs: int, kind: int, from_b: bool, ms: int):
    """Service not RUNNING or node not ON => a connect / query / disconnect payload has no effect and no reply,
    whatever the software health: right password, open connection, destructive query, free capacity."""
    assume(all_of(rng(ns, 0, 3), rng(st, 0, 5), rng(hs, 0, 4), rng(kind, 0, 3), ms >= 3))
    with concrete():
        p = _step_fixture()
    node, sstate, health, password, live = _set_pre_state(p, ns, st, hs, 1, True, True, ms, 1)
    assume(not (node == "ON" and sstate == "RUNNING"))
    with concrete():
        before = (dict(p.svc.connections), _file_state(p.svc), p.svc.health_state_actual)
    my_id = p.id_b if from_b else p.id_a
    k = pick(["connect", "delete", "encrypt", "disconnect"], kind)
    if k == "connect":
        payload = {"type": "connect_request", "password": "p", "connection_request_id": "req-1"}
    elif k == "disconnect":
        payload = {"type": "disconnect", "connection_id": my_id}
    else:
        payload = {"type": "sql", "sql": k.upper(), "uuid": "q-1", "connection_id": my_id}
    ret, sid = _deliver(p, payload, from_b)
    check(not ret, f"{k} payload accepted while node is {node} and service is {sstate}")
    check(len(p.sent) == 0, f"service replied to a {k} payload while node is {node} and service is {sstate}")
    with concrete():
        after = (dict(p.svc.connections), _file_state(p.svc), p.svc.health_state_actual)
    check(before[0] == after[0], f"{k} payload changed the connections while node is {node}, service {sstate}")
    check(before[1] == after[1], f"{k} payload changed database.db while node is {node}, service {sstate}")
    check(before[2] == after[2], f"{k} payload changed the service health while node is {node}, service {sstate}")
    cover("gate_node_off" if node != "ON" else "gate_service_down")


def db_connect(hs: int, fh: int, has_a: bool, has_b: bool, ms: int, pws: int, pwr: int, from_b: bool):
    """connect_request on a RUNNING service / ON node from an arbitrary pre-state."""
    assume(all_of(rng(hs, 0, 4), rng(fh, 0, 6), rng(pws, 0, 2), rng(pwr, 0, 2)))
    with concrete():
        p = _step_fixture()
    node, sstate, health, password, live = _set_pre_state(p, 0, 0, hs, fh, has_a, has_b, ms, pws)
    check(node == "ON" and sstate == "RUNNING", "harness: enum order changed")
    supplied = pick(PASSWORDS, pwr)
    with concrete():
        before = dict(p.svc.connections)
        fbefore = _file_state(p.svc)
    n_pre = len(before)
    payload = {"type": "connect_request", "password": supplied, "connection_request_id": "req-1"}
    ret, sid = _deliver(p, payload, from_b)
    reply = _only_reply(p, sid)
    with concrete():
        after = dict(p.svc.connections)
        fafter = _file_state(p.svc)
    new = [c for c in after if c not in before]
    code = reply["status_code"]
    check(reply.get("type") == "connect_response", "reply to a connect request is not a connect_response")
    check(reply.get("connection_request_id") == "req-1", "connect_response does not echo the request id")
    check(all(c in after and after[c] == before[c] for c in before), "a connect request disturbed other connections")
    check(fbefore == fafter, "a connect request changed database.db")
    check((code == 200) == (len(new) == 1) and len(new) <= 1, lambda: f"status {code} but {len(new)} connections opened")
    check((reply.get("response") is True) == (code == 200), "connect_response 'response' flag disagrees with status")
    right = supplied == password
    at_capacity = n_pre >= ms
    if new:
        cover("opened")
        check(right, f"connection opened for password {supplied!r} while the service password is {password!r}")
        check(not at_capacity, "connection opened although the service was at its session limit")
        check(reply.get("connection_id") == new[0], "connect_response names a different connection id")
        check(new[0] not in (p.id_a, p.id_b, p.id_closed), "a previously issued connection id was issued again")
        check(after[new[0]]["session_id"] == sid, "new connection is not bound to the originating session")
        check(after[new[0]]["ip_address"] == p.ips[1 if from_b else 0], "new connection records the wrong client")
    else:
        check(code != 200, "status 200 without a connection")
    if not right:
        cover("wrong_password")
        check(code in (401, 503), lambda: f"wrong password answered with status {code}")
        if health == "GOOD":
            check(code == 401, lambda: f"wrong password on a healthy service answered with {code}, expected 401")
    elif at_capacity:
        cover("at_capacity")
        check(code in (500, 503), lambda: f"request at capacity answered with status {code}")
    elif health == "GOOD":
        check(len(new) == 1, lambda: f"right password, free capacity, healthy running service: refused with {code}")
    elif health == "OVERWHELMED":
        cover("overwhelmed_with_free_capacity")  # observation only: the statement does not say when this must recover


def db_sql(hs: int, fh: int, has_a: bool, has_b: bool, q: int, cid: int, from_b: bool, ms: int):
    """sql payload on a RUNNING service / ON node from an arbitrary pre-state."""
    assume(all_of(rng(hs, 0, 4), rng(fh, 0, 6), rng(q, 0, len(QUERIES) - 1), rng(cid, 0, 4)))
    with concrete():
        p = _step_fixture()
    node, sstate, health, password, live = _set_pre_state(p, 0, 0, hs, fh, has_a, has_b, ms, 1)
    query = pick(QUERIES, q)
    conn_id = pick([p.id_a, p.id_b, p.id_closed, "00000000-0000-4000-8000-000000000000", None], cid)
    with concrete():
        before = dict(p.svc.connections)
        exists, fhealth = _file_state(p.svc)
    payload = {"type": "sql", "sql": query, "uuid": "q-1", "connection_id": conn_id}
    ret, sid = _deliver(p, payload, from_b)
    reply = _only_reply(p, sid)
    code = reply["status_code"]
    with concrete():
        after = dict(p.svc.connections)
        exists2, fhealth2 = _file_state(p.svc)
        health2 = p.svc.health_state_actual.name
    check(before == after, "a query changed the set of connections")
    check(health2 == health, "a query changed the health of the service")
    check(exists == exists2, "a query created or removed database.db")
    changed = fhealth != fhealth2
    is_open = conn_id in live
    if not is_open:
        cover("not_open")
        check(code != 200, lambda: f"{query} on a connection that is not open answered 200")
        check(reply.get("data") is not True, "data returned on a connection that is not open")
        check(not changed, lambda: f"{query} on a connection that is not open changed database.db to {fhealth2}")
        return
    cover("open")
    if code == 200:
        check(reply.get("uuid") == "q-1", "successful reply does not carry the query id")
        check(exists, "query succeeded although database.db does not exist")
    healthy = health == "GOOD" and exists
    if healthy:
        cover("healthy")
    if health == "FIXING":
        check(code != 200 and not changed, "query ran while the service is being fixed")
    if code != 200:
        check(not changed, lambda: f"{query} answered {code} but changed database.db to {fhealth2}")
        check(reply.get("data") is not True, "failed query returned data")
    if query == "SELECT":
        check(not changed, "SELECT changed database.db")
        check((reply.get("data") is True) <= (fhealth == "GOOD"), lambda: f"SELECT returned data from {fhealth} file")
        if fhealth == "COMPROMISED":
            cover("read_compromised")
            check(code != 200, "SELECT on compromised data succeeded")
        if healthy and fhealth == "GOOD":
            check(code == 200 and reply.get("data") is True, lambda: f"SELECT on good data failed with {code}")
    elif query == "DELETE":
        if code == 200:
            cover("deleted")
            check(fhealth2 == "COMPROMISED", lambda: f"DELETE succeeded but database.db is {fhealth2}")
        if healthy:
            check(code == 200, lambda: f"DELETE on a healthy service failed with {code}")
    elif query == "ENCRYPT":
        if code == 200:
            cover("encrypted")
            check(fhealth2 == "CORRUPT", lambda: f"ENCRYPT succeeded but database.db is {fhealth2}")
        if healthy:
            check(code == 200, lambda: f"ENCRYPT on a healthy service failed with {code}")
    elif query in ("INSERT", "SELECT * FROM pg_stat_activity"):
        check(not changed, lambda: f"{query} changed database.db")
        check(reply.get("data") is not True, lambda: f"{query} returned data")
        if healthy:
            check(code == 200, lambda: f"{query} on a healthy service failed with {code}")
    else:
        cover("unknown_query")
        check(code != 200 and not changed, "unknown query was accepted")


def db_disconnect(hs: int, has_a: bool, has_b: bool, cid: int, from_b: bool, ms: int):
    """disconnect payload: closes exactly the named connection, and only for the client that owns it."""
    assume(all_of(rng(hs, 0, 4), rng(cid, 0, 4)))
    with concrete():
        p = _step_fixture()
    node, sstate, health, password, live = _set_pre_state(p, 0, 0, hs, 1, has_a, has_b, ms, 1)
    conn_id = pick([p.id_a, p.id_b, p.id_closed, "00000000-0000-4000-8000-000000000000", None], cid)
    with concrete():
        before = dict(p.svc.connections)
        fbefore = _file_state(p.svc)
    ret, sid = _deliver(p, {"type": "disconnect", "connection_id": conn_id}, from_b)
    with concrete():
        after = dict(p.svc.connections)
        fafter = _file_state(p.svc)
    check(fbefore == fafter, "disconnect changed database.db")
    check(all(c in before for c in after), "disconnect opened a connection")
    removed = [c for c in before if c not in after]
    owner_is_sender = (conn_id == p.id_b) == bool(from_b)
    if conn_id in live and owner_is_sender:
        cover("closed")
        check(removed == [conn_id], "owner's disconnect did not close exactly its connection")
    else:
        cover("refused")
        check(removed == [], lambda: f"disconnect of {conn_id} by the wrong client / for a dead id closed {removed}")


# ------------------------------------------------------------------------------------------------ client side
CONNECT_REPLIES = ["ok", "ok_other_request", "unauthorised", "unavailable", "none"]
QUERY_REPLIES = ["ok", "ok_other_query", "not_found", "unauthorised", "none"]
CLIENT_OPS = ["new_connection", "conn_query", "native_query", "conn_disconnect", "uninstall", "server_disconnect", "execute"]


def client_step(ns: int, aps: int, has_native: bool, op: int, rc: int, rq: int, q: int):
    """DatabaseClient bookkeeping from an arbitrary client pre-state; the server's replies are chosen by the solver.
    A connection handle / a True query result exists only if the server answered 200 to THIS request, and a closed
    handle never queries again."""
    from primaite.simulator.network.hardware.node_operating_state import NodeOperatingState
    from primaite.simulator.system.applications.application import ApplicationOperatingState

    assume(all_of(rng(ns, 0, 3), rng(aps, 0, 2), rng(op, 0, len(CLIENT_OPS) - 1), rng(rc, 0, 4), rng(rq, 0, 4), rng(q, 0, 2)))
    with concrete():
        quiet()
        sim = new_sim()
        ca = mk_host("computer", "ca", A_IP, start_up_duration=0, shut_down_duration=0)
        ca.power_on()
        sim.network.add_node(ca)
        from ipaddress import IPv4Address

        from primaite.simulator.system.applications.database_client import DatabaseClient

        ca.software_manager.install(DatabaseClient)
        cl = ca.software_manager.software["database-client"]
        cl.configure(server_ip_address=IPv4Address(DB_IP))
        cl.run()
    st = {"n": 0, "sent": [], "mode": "setup", "issued": [], "answered_ok": []}

    def transport(payload, dest_ip_address=None, src_port=None, dest_port=None, ip_protocol=None, session_id=None):
        st["sent"].append(payload)
        if not (isinstance(payload, dict)):
            return True
        if payload.get("type") == "connect_request":
            mode = "ok" if st["mode"] == "setup" else pick(CONNECT_REPLIES, rc)
            st["n"] += 1
            cid = "conn-%d" % st["n"]
            rid = payload["connection_request_id"]
            if mode == "ok":
                st["issued"].append(cid)
                reply = {"status_code": 200, "type": "connect_response", "response": True, "connection_id": cid, "connection_request_id": rid}
            elif mode == "ok_other_request":
                reply = {"status_code": 200, "type": "connect_response", "response": True, "connection_id": cid, "connection_request_id": "someone-else"}
            elif mode == "unauthorised":
                reply = {"status_code": 401, "type": "connect_response", "response": False, "connection_id": None, "connection_request_id": rid}
            elif mode == "unavailable":
                reply = {"status_code": 503, "type": "connect_response", "response": False, "connection_id": None, "connection_request_id": rid}
            else:
                return True
            cl.receive(session_id="sess", payload=reply)
        elif payload.get("type") == "sql":
            mode = "ok" if st["mode"] == "setup" else pick(QUERY_REPLIES, rq)
            if mode == "ok":
                st["answered_ok"].append(payload["uuid"])
                reply = {"status_code": 200, "type": "sql", "data": True, "uuid": payload["uuid"], "connection_id": payload["connection_id"]}
            elif mode == "ok_other_query":
                reply = {"status_code": 200, "type": "sql", "data": True, "uuid": "another-query", "connection_id": payload["connection_id"]}
            elif mode == "not_found":
                reply = {"status_code": 404, "type": "sql", "data": False}
            elif mode == "unauthorised":
                reply = {"status_code": 401, "type": "sql"}
            else:
                return True
            cl.receive(session_id="sess", payload=reply)
        return True

    with concrete():
        ca.software_manager.send_payload_to_session_manager = transport
        conn = cl.get_new_connection()
        if has_native:
            cl.connect()
        if conn is None or (has_native and cl.native_connection is None):
            raise RuntimeError("client fixture could not be established")
        del st["sent"][:]
    st["mode"] = "run"
    node_state = pick(list(NodeOperatingState), ns)
    app_state = pick(list(ApplicationOperatingState), aps)
    ca.operating_state = node_state
    cl.operating_state = app_state
    can_act = node_state.name == "ON" and app_state.name == "RUNNING"
    opn = pick(CLIENT_OPS, op)
    sql = pick(["SELECT", "DELETE", "INSERT"], q)
    native = cl.native_connection
    closed = []

    def sent_of(kind):
        return [x for x in st["sent"] if isinstance(x, dict) and x.get("type") == kind]

    try:
        if opn == "new_connection":
            n_issued = len(st["issued"])
            got = cl.get_new_connection()
            mode_ok = len(st["issued"]) > n_issued
            if not can_act:
                check(got is None and not st["sent"], "client that cannot act produced a connection / sent a request")
            if got is not None:
                cover("client_connected")
                check(mode_ok, "connection handle returned although the server did not accept this request")
                check(got.connection_id == st["issued"][-1], "handle carries an id the server did not issue for it")
                check(got.is_active and cl.client_connections.get(got.connection_id) is got, "handle not registered")
            elif can_act and mode_ok:
                fail("server accepted the request (200, matching request id) but no connection handle was returned")
            else:
                cover("client_refused")
        elif opn in ("conn_query", "native_query"):
            n_ok = len(st["answered_ok"])
            if opn == "conn_query":
                res = conn.query(sql)
            else:
                res = cl.query(sql)
                if not has_native or not can_act:
                    check(not res, "native query succeeded without a native connection / on a client that cannot act")
            answered = len(st["answered_ok"]) > n_ok
            if res:
                cover("client_query_ok")
                check(answered, "query reported success although the server did not answer 200 to this query")
                check(can_act, "query reported success on a client that cannot act")
                asked = sent_of("sql")
                want = conn.connection_id if opn == "conn_query" else native.connection_id
                check(len(asked) == 1 and asked[0]["connection_id"] == want and asked[0]["sql"] == sql, "wrong query sent")
            elif can_act and answered:
                fail("server answered 200 to this query but the client reported failure")
            else:
                cover("client_query_failed")
        elif opn == "conn_disconnect":
            conn.disconnect()
            if can_act:
                cover("client_disconnected")
                d = sent_of("disconnect")
                check(len(d) == 1 and d[0]["connection_id"] == conn.connection_id, "disconnect not sent for this handle")
                check(not conn.is_active and conn.connection_id not in cl.client_connections, "handle still open")
                closed.append(conn)
        elif opn == "uninstall":
            resp = sim.apply_request(["network", "node", "ca", "software_manager", "application", "uninstall", "database-client"])
            if node_state.name == "ON":
                check(resp.status == "success", lambda: f"uninstall request answered {resp.status}")
            if resp.status == "success":
                cover("client_uninstalled")
                check("database-client" not in ca.software_manager.software, "client still installed")
                check(len(cl.client_connections) == 0, "uninstalled client still holds connections")
                if can_act:
                    ids = sorted(x["connection_id"] for x in sent_of("disconnect"))
                    want = sorted([conn.connection_id] + ([native.connection_id] if has_native else []))
                    check(ids == want, "uninstall did not tell the server to close exactly the client's connections")
                closed.append(conn)
                if has_native:
                    closed.append(native)
        elif opn == "server_disconnect":
            cl.receive(session_id="sess", payload={"type": "disconnect", "connection_id": conn.connection_id})
            if can_act:
                cover("server_led_disconnect")
                check(not conn.is_active and conn.connection_id not in cl.client_connections, "handle still open")
                closed.append(conn)
        elif opn == "execute":
            n_issued, n_ok = len(st["issued"]), len(st["answered_ok"])
            resp = sim.apply_request(["network", "node", "ca", "application", "database-client", "execute"])
            ok = resp.status == "success"
            if ok:
                cover("execute_ok")
                check(can_act, "execute succeeded on a client that cannot act")
                check(has_native or len(st["issued"]) > n_issued, "execute succeeded without a connection")
                check(len(st["answered_ok"]) > n_ok, "execute succeeded although the server did not answer 200")
            elif can_act and (has_native or len(st["issued"]) > n_issued) and len(st["answered_ok"]) > n_ok:
                fail("server accepted connection and check query but execute failed")
            if not can_act:
                check(not ok and not st["sent"], "execute on a client that cannot act sent traffic / succeeded")
    except Exception as e:
        from vlib.chdriver import AssumptionFailed, PropertyViolated

        if isinstance(e, (PropertyViolated, AssumptionFailed)):
            raise
        fail(f"client operation {opn} raised {type(e).__name__}: {e}")
    # a closed handle never reaches the server again and never reports success
    for h in closed:
        del st["sent"][:]
        st["mode"] = "setup"  # the server WOULD answer 200
        check(not h.query("SELECT"), "a closed connection handle still queries successfully")
        check(not sent_of("sql"), "a closed connection handle still sends queries to the server")


# ------------------------------------------------------------------------------------------ bounded runs, real network
R_DB, R_BK, R_A, R_B = "192.168.3.2", "192.168.4.2", "192.168.1.2", "192.168.2.2"
OPS = [
    "tick",                                                                     # 0
    "connect_a_right", "connect_a_wrong", "connect_a_nopw", "connect_b_right",   # 1-4
    "query_a_SELECT", "query_a_INSERT", "query_a_DELETE", "query_a_ENCRYPT", "query_a_JUNK", "query_b_SELECT",  # 5-10
    "raw_forged_id", "raw_closed_id",                                            # 11-12
    "disconnect_a", "uninstall_a",                                               # 13-14
    "svc_stop", "svc_start", "svc_pause", "svc_resume", "svc_restart", "svc_fix",  # 15-20
    "backup", "restore",                                                         # 21-22
    "db_off", "db_on", "bk_off", "bk_on",                                        # 23-26
    "acl_block_db", "acl_block_ftp", "acl_unblock",                              # 27-29
    "file_delete", "folder_delete",                                              # 30-31
    "execute_a",                                                                 # 32
    "ftp_stop", "ftp_start",                                                     # 33-34
    "server_terminate_a",                                                        # 35
    "ca_off", "ca_on",                                                           # 36-37
]


class _World:
    """Router (ACL) with one subnet per host: clients A and B, database server, backup server (FTP server).
    Warm start: service password 'p', A and B each hold one open connection, ARP caches filled."""

    def __init__(self, dur: int = 0):
        from ipaddress import IPv4Address

        from primaite.simulator.network.hardware.nodes.network.router import ACLAction
        from primaite.simulator.system.applications.database_client import DatabaseClient
        from primaite.simulator.system.services.database.database_service import DatabaseService
        from primaite.simulator.system.services.ftp.ftp_server import FTPServer

        quiet()
        self.sim = sim = new_sim()
        net = sim.network
        self.router = r = mk_node("router", "router", start_up_duration=0, num_ports=4)
        r.power_on()
        net.add_node(r)
        hosts = {}
        for i, (name, typ) in enumerate([("ca", "computer"), ("cb", "computer"), ("db", "server"), ("bk", "server")]):
            sub = i + 1
            r.configure_port(port=sub, ip_address=f"192.168.{sub}.1", subnet_mask="255.255.255.0")
            h = mk_host(typ, name, f"192.168.{sub}.2", gw=f"192.168.{sub}.1", start_up_duration=0, shut_down_duration=0)
            h.power_on()
            net.add_node(h)
            net.connect(r.network_interface[sub], h.network_interface[1])
            r.enable_port(sub)
            hosts[name] = h
        r.acl.add_rule(action=ACLAction.PERMIT, position=10)
        for link in net.links.values():
            link.bandwidth = 10**9
        self.ca, self.cb, self.db, self.bk = hosts["ca"], hosts["cb"], hosts["db"], hosts["bk"]
        self.db.software_manager.install(DatabaseService)
        self.svc = svc = self.db.software_manager.software["database-service"]
        svc.configure_backup(IPv4Address(R_BK))
        svc.config.db_password = "p"
        self.bk.software_manager.install(FTPServer)
        self.ftp_server = self.bk.software_manager.software["ftp-server"]
        self.clients = {}
        for key, c in (("a", self.ca), ("b", self.cb)):
            c.software_manager.install(DatabaseClient)
            cl = c.software_manager.software["database-client"]
            cl.configure(server_ip_address=IPv4Address(R_DB), server_password="p")
            cl.run()
            self.clients[key] = cl
        self.open = {"a": [self.clients["a"].get_new_connection()], "b": [self.clients["b"].get_new_connection()]}
        if self.open["a"][0] is None or self.open["b"][0] is None or len(svc.connections) != 2:
            raise RuntimeError("warm start failed")
        # arp warm-up for the backup path, without creating a backup
        self.db.ping(R_BK)
        for n in (self.db, self.bk):
            n.config.shut_down_duration = dur
            n.config.start_up_duration = dur
        self.red = {}
        self.red_pw = None
        self.t = 0
        self.a_installed = True
        self.closed_ids = []          # ids the SERVER was told to close (the request reached it)
        self.server_open = {h.connection_id for k in self.open for h in self.open[k]}  # reference: issued, not closed
        self.backup_health = None     # health of database.db when the stored backup was taken
        self.acl_db = False
        self.acl_ftp = False

    def install_red_apps(self, password):
        """RansomwareScript (ENCRYPT) and DataManipulationBot (DELETE, both stage probabilities 1) on client B's host."""
        from ipaddress import IPv4Address

        from primaite.simulator.system.applications.red_applications.data_manipulation_bot import DataManipulationBot
        from primaite.simulator.system.applications.red_applications.ransomware_script import RansomwareScript

        sm = self.cb.software_manager
        sm.install(RansomwareScript)
        sm.install(DataManipulationBot)
        rs, bot = sm.software["ransomware-script"], sm.software["data-manipulation-bot"]
        rs.configure(server_ip_address=IPv4Address(R_DB), server_password=password, payload="ENCRYPT")
        rs.server_password = password
        bot.configure(
            server_ip_address=IPv4Address(R_DB),
            server_password=password,
            payload="DELETE",
            port_scan_p_of_success=1.0,
            data_manipulation_p_of_success=1.0,
            repeat=True,
        )
        rs.run()
        bot.run()
        self.red = {"ransomware_b": rs, "dmbot_b": bot}
        self.red_pw = password

    # -- observations of the real pre-state -------------------------------------------------------------------
    def db_up(self):
        return self.db.operating_state.name == "ON" and self.svc.operating_state.name == "RUNNING"

    def reach(self, who):
        cl = self.clients[who]
        node = self.ca if who == "a" else self.cb
        return (
            self.db_up()
            and not self.acl_db
            and node.operating_state.name == "ON"
            and cl.operating_state.name == "RUNNING"
        )

    def ftp_path(self):
        return (
            self.db_up()
            and not self.acl_ftp
            and self.bk.operating_state.name == "ON"
            and self.ftp_server.operating_state.name == "RUNNING"
        )

    def backup_file(self):
        return self.bk.file_system.get_file(folder_name=str(self.svc.uuid), file_name="database.db")

    def snapshot(self):
        with concrete():
            return (set(self.svc.connections), _file_state(self.svc), self.backup_file() is not None)


def _req(w, *path):
    return w.sim.apply_request(list(path))


def _apply(w: "_World", op: str):
    """Run one operation on the real system and check its outcome against the statement, conditional on the
    pre-state read from the real objects."""
    svc = w.svc
    pre_conns, pre_file, pre_backup = w.snapshot()
    pre_health = svc.health_state_actual.name
    n_pre = len(pre_conns)
    file_may_change = False
    try:
        if op == "tick":
            w.t += 1
            w.sim.pre_timestep(w.t)
            w.sim.apply_timestep(w.t)
            file_may_change = True  # a completed fix restores the backup
        elif op.startswith("connect_"):
            who = op[8]
            if who == "a":
                assume(w.a_installed)
            cl = w.clients[who]
            supplied = {"right": "p", "wrong": "q", "nopw": None}[op.split("_")[2]]
            cl.server_password = supplied
            reach = w.reach(who)
            h = cl.get_new_connection()
            cl.server_password = "p"
            post = set(svc.connections)
            if h is not None:
                cover("s_connected")
                check(reach, f"{op}: connection obtained although the service is down / unreachable")
                check(supplied == "p", f"{op}: connection obtained with password {supplied!r}")
                check(n_pre < svc.max_sessions, lambda: f"{op}: connection obtained beyond the session limit ({n_pre} open)")
                check(post == pre_conns | {h.connection_id} and h.connection_id not in pre_conns, f"{op}: server did not register exactly the issued connection")
                w.open[who].append(h)
                w.server_open.add(h.connection_id)
            else:
                cover("s_refused")
                check(post == pre_conns, f"{op}: refused connect changed the server's connections")
                if reach and supplied == "p" and n_pre < svc.max_sessions and pre_health == "GOOD":
                    fail(f"{op}: right password, capacity free, healthy running reachable service, but no connection")
        elif op.startswith("query_"):
            who = op[6]
            if who == "a":
                assume(w.a_installed)
            assume(len(w.open[who]) > 0)
            h = w.open[who][-1]
            sql = op.split("_")[2]
            if sql == "JUNK":
                sql = "DROP TABLE users"
            reach = w.reach(who)
            res = h.query(sql)
            _query_oracle(w, op, sql, res, reach and h.connection_id in w.server_open, pre_file, pre_health)
            file_may_change = True
        elif op in ("raw_forged_id", "raw_closed_id"):
            assume(w.a_installed)
            if op == "raw_closed_id":
                assume(len(w.closed_ids) > 0)
                cid = w.closed_ids[-1]
            else:
                cid = "00000000-0000-4000-8000-000000000000"
            res = w.clients["a"]._query("DELETE", connection_id=cid)
            cover("s_raw")
            check(not res, f"{op}: DELETE on a connection id that is not open succeeded")
            check(_file_state(svc) == pre_file, f"{op}: DELETE on a connection id that is not open changed database.db")
        elif op == "disconnect_a":
            assume(w.a_installed)
            assume(len(w.open["a"]) > 0)
            h = w.open["a"].pop()
            reach = w.reach("a")
            client_ok = w.ca.operating_state.name == "ON" and w.clients["a"].operating_state.name == "RUNNING"
            h.disconnect()
            post = set(svc.connections)
            if reach:
                cover("s_disconnected")
                check(post == pre_conns - {h.connection_id}, "disconnect did not close exactly that connection on the server")
                w.server_open.discard(h.connection_id)
                w.closed_ids.append(h.connection_id)
            else:
                check(post == pre_conns, "unreachable service lost / gained connections on a client disconnect")
            if client_ok:
                check(not h.is_active, "disconnect left the client handle active")
                check(not h.query("SELECT"), "closed handle still queries")
            else:
                w.open["a"].append(h)  # a client that cannot act (node off) did nothing
        elif op == "uninstall_a":
            assume(w.a_installed)
            reach = w.reach("a")
            resp = _req(w, "network", "node", "ca", "software_manager", "application", "uninstall", "database-client")
            if w.ca.operating_state.name == "ON":
                check(resp.status == "success", lambda: f"uninstall answered {resp.status}")
            assume(resp.status == "success")
            w.a_installed = False
            post = set(svc.connections)
            mine = {h.connection_id for h in w.open["a"]}
            if reach:
                cover("s_uninstalled")
                check(post == pre_conns - mine, "uninstall did not close exactly the client's connections on the server")
                w.server_open -= mine
                w.closed_ids.extend(sorted(mine))
            else:
                check(post == pre_conns, "unreachable service lost / gained connections on a client uninstall")
            for h in w.open["a"]:
                check(not h.query("SELECT"), "handle of an uninstalled client still queries")
            w.open["a"] = []
        elif op == "server_terminate_a":
            assume(len(w.open["a"]) > 0)
            h = w.open["a"].pop()
            reach = w.reach("a") and w.a_installed
            svc.terminate_connection(h.connection_id)
            cover("s_server_terminated")
            check(set(svc.connections) == pre_conns - {h.connection_id}, "terminate_connection did not close exactly that connection")
            w.server_open.discard(h.connection_id)
            w.closed_ids.append(h.connection_id)
            if reach:
                check(not h.is_active, "client handle still active after the server closed the connection")
            check(not h.query("SELECT"), "query succeeded on a connection the server has closed")
            check(_file_state(svc) == pre_file, "query on a server-closed connection changed database.db")
        elif op in ("ransomware_b", "dmbot_b"):
            app = w.red[op]
            reach = w.reach("b") and app.operating_state.name == "RUNNING"
            had_conn = app._db_connection is not None and app._db_connection.connection_id in w.server_open
            resp = _req(w, "network", "node", "cb", "application", app.name, "execute")
            w.clients["b"].server_password = "p"
            post = set(svc.connections)
            post_file = _file_state(svc)
            new = post - pre_conns
            check(pre_conns <= post and len(new) <= 1, f"{op}: attack disturbed the server's connections")
            if new:
                cover("s_red_connected")
                check(reach and w.red_pw == "p" and n_pre < svc.max_sessions, f"{op}: attack obtained a connection on a down / unreachable / full service or with a wrong password")
                w.server_open |= new
            want = (True, "CORRUPT") if op == "ransomware_b" else (True, "COMPROMISED")
            if post_file != pre_file:
                cover("s_red_damaged")
                check(post_file == want, lambda: f"{op}: database.db went from {pre_file} to {post_file}")
                check(reach and (had_conn or bool(new)), f"{op}: data damaged without an open connection / on a down or unreachable service")
            if op == "ransomware_b" and resp.status == "success":
                check(post_file == want, "ransomware reported success but the data is not encrypted")
            if reach and pre_health == "GOOD" and pre_file[0] and (had_conn or (w.red_pw == "p" and n_pre < svc.max_sessions)):
                check(post_file == want, lambda: f"{op}: attack over an open path with valid credentials left database.db {post_file}")
            file_may_change = True
        elif op.startswith("svc_"):
            _req(w, "network", "node", "db", "service", "database-service", op[4:])
        elif op == "backup":
            path = w.ftp_path()
            ok = svc.backup_database()
            if ok:
                cover("s_backup")
                check(path, "backup reported success while the service is down / the backup path is blocked")
                check(pre_file[0], "backup reported success without a database file")
                f = w.backup_file()
                check(f is not None and f.health_status.name == pre_file[1], "stored backup does not match the data")
                w.backup_health = pre_file[1]
            else:
                check(w.backup_file() is None or pre_backup, "failed backup created a backup file")
                if path and pre_file[0] and not pre_backup:
                    fail("first backup over an open path with a running service failed")
        elif op == "restore":
            path = w.ftp_path()
            ok = svc.restore_backup()
            post_file = _file_state(svc)
            if ok:
                cover("s_restore")
                check(path, "restore reported success while the service is down / the backup path is blocked")
                check(w.backup_health is not None, "restore reported success although no backup was ever taken")
                check(post_file[0], "restore reported success but database.db does not exist")
            else:
                check(post_file == pre_file, "failed restore changed database.db")
            if path and w.backup_health == "GOOD":
                cover("s_restore_good")
                check(ok and post_file == (True, "GOOD"), lambda: f"restore of a backup taken while healthy over an open path: returned {ok}, database.db is {post_file}")
            file_may_change = True
        elif op in ("db_off", "db_on", "bk_off", "bk_on", "ca_off", "ca_on"):
            _req(w, "network", "node", op[:2], "shutdown" if op.endswith("off") else "startup")
        elif op in ("ftp_stop", "ftp_start"):
            _req(w, "network", "node", "bk", "service", "ftp-server", op[4:])
        elif op == "acl_block_db":
            assume(not w.acl_db)
            r = _req(w, "network", "node", "router", "acl", "add_rule", "DENY", "TCP", "ALL", "NONE", "ALL", "ALL", "NONE", 5432, 1)
            check(r.status == "success", "harness: could not add the ACL rule")
            w.acl_db = True
        elif op == "acl_block_ftp":
            assume(not w.acl_ftp)
            r = _req(w, "network", "node", "router", "acl", "add_rule", "DENY", "TCP", "ALL", "NONE", "ALL", "ALL", "NONE", 21, 2)
            check(r.status == "success", "harness: could not add the ACL rule")
            w.acl_ftp = True
        elif op == "acl_unblock":
            assume(w.acl_db or w.acl_ftp)
            if w.acl_db:
                _req(w, "network", "node", "router", "acl", "remove_rule", 1)
            if w.acl_ftp:
                _req(w, "network", "node", "router", "acl", "remove_rule", 2)
            w.acl_db = w.acl_ftp = False
        elif op == "file_delete":
            assume(pre_file[0])
            w.db.file_system.delete_file(folder_name="database", file_name="database.db")
            file_may_change = True
        elif op == "folder_delete":
            assume(pre_file[0])
            w.db.file_system.delete_folder(folder_name="database")
            file_may_change = True
        elif op == "execute_a":
            assume(w.a_installed)
            cl = w.clients["a"]
            reach = w.reach("a")
            resp = _req(w, "network", "node", "ca", "application", "database-client", "execute")
            if resp.status == "success":
                cover("s_execute")
                check(reach, "execute succeeded although the service is down / unreachable")
                check(cl.native_connection is not None and cl.native_connection.connection_id in svc.connections, "execute succeeded without an open connection")
            post = set(svc.connections)
            new = post - pre_conns
            check(len(new) <= 1 and pre_conns <= post, "execute disturbed the server's connections")
            if new:
                check(reach and n_pre < svc.max_sessions, "execute opened a connection on a down / full service")
                w.server_open |= new
                if cl.native_connection is not None and cl.native_connection not in w.open["a"]:
                    w.open["a"].append(cl.native_connection)
    except Exception as e:
        from vlib.chdriver import AssumptionFailed, PropertyViolated

        if isinstance(e, (PropertyViolated, AssumptionFailed)):
            raise
        fail(f"{op} raised {type(e).__name__}: {e}")
    # ---- frame conditions that hold for every operation --------------------------------------------------------
    post_conns, post_file, post_backup = w.snapshot()
    check(post_conns <= w.server_open and w.server_open <= post_conns, lambda: f"after {op}: server connections differ from the issued-and-not-closed set")
    if post_backup and not pre_backup and w.backup_health is None:
        w.backup_health = pre_file[1]  # automatic backup of tick 1
        cover("s_auto_backup")
    if post_file != pre_file:
        check(file_may_change, lambda: f"{op} changed database.db from {pre_file} to {post_file}")
        if op == "tick":
            cover("s_fix_restored")
            check(w.backup_health is not None and post_file == (True, w.backup_health), lambda: f"tick changed database.db to {post_file} which is not the stored backup")
            check(w.db_up(), "database.db was restored during a tick although the service is down")


def _query_oracle(w, op, sql, res, usable, pre_file, pre_health):
    post_file = _file_state(w.svc)
    exists, fhealth = pre_file
    if res:
        cover("s_query_ok")
        check(usable, f"{op}: query succeeded on a closed connection / a service that is down or unreachable")
        check(exists, f"{op}: query succeeded without a database file")
    if not res or sql not in ("DELETE", "ENCRYPT"):
        check(post_file == pre_file, lambda: f"{op} -> {res}: database.db went from {pre_file} to {post_file}")
    elif sql == "DELETE":
        cover("s_deleted")
        check(post_file == (True, "COMPROMISED"), lambda: f"successful DELETE left database.db {post_file}")
    else:
        cover("s_encrypted")
        check(post_file == (True, "CORRUPT"), lambda: f"successful ENCRYPT left database.db {post_file}")
    if sql == "SELECT" and fhealth == "COMPROMISED":
        cover("s_read_compromised")
        check(not res, f"{op}: SELECT on compromised data succeeded")
    if sql == "DROP TABLE users":
        check(not res, f"{op}: unknown query succeeded")
    if usable and pre_health == "GOOD" and exists and not res:
        if sql in ("INSERT", "DELETE", "ENCRYPT") or (sql == "SELECT" and fhealth == "GOOD"):
            fail(f"{op}: open connection, healthy running reachable service, {fhealth} data: query failed")


def db_session(op0: int, op1: int, op2: int, op3: int, op4: int, ms: int, n_ops: int = 2, dur: int = 0, grp: int = -1, ngrp: int = 1):
    """n_ops operations from the warm initial state over the real network."""
    ops = [op0, op1, op2, op3, op4][:n_ops]
    conds = [rng(o, 0, len(OPS) - 1) for o in ops] + [ms >= 2]
    if grp >= 0:
        conds.append(op0 % ngrp == grp)
    assume(all_of(*conds))
    with concrete():
        w = _World(dur)
    w.svc.max_sessions = ms
    for o in ops:
        _apply(w, pick(OPS, o))
    cover("s_done")


DAMAGE = ["none", "query_a_DELETE", "query_a_ENCRYPT", "file_delete", "folder_delete"]
BLOCKS = [
    ("none", None),
    ("svc_stop", "svc_start"),
    ("svc_pause", "svc_resume"),
    ("svc_restart", "ticks"),
    ("db_off", "db_on"),
    ("bk_off", "bk_on"),
    ("acl_block_ftp", "acl_unblock"),
    ("ftp_stop", "ftp_start"),
]


def db_restore(d0: int, via_tick: bool, d1: int, d2: int, blk: int, use_fix: bool, fd: int, prior: bool):
    """damage? -> backup (explicit or the automatic one of tick 1) -> damage -> damage? -> block -> restore attempt
    (explicit, or service fix + ticks) -> unblock -> restore -> read. Every step is checked by _apply; at the end a
    backup taken while the data was healthy must have brought database.db back to GOOD and reads must work again."""
    assume(all_of(rng(d0, 0, 2), rng(d1, 0, 4), rng(d2, 0, 2), rng(blk, 0, len(BLOCKS) - 1), rng(fd, 1, 3)))
    with concrete():
        w = _World(0)
    w.svc.max_sessions = 10
    w.svc.config.fixing_duration = fd
    dmg0 = pick(DAMAGE[:3], d0)
    if dmg0 != "none":
        _apply(w, dmg0)
    if via_tick:
        _apply(w, "tick")
    else:
        _apply(w, "backup")
    check(w.backup_health is not None, "no backup was stored by an explicit backup / the first tick over an open path")
    if prior:
        # an EARLIER damage + successful restore (leaves whatever the restore leaves behind on the server): the later,
        # blocked restore must still fail
        _apply(w, DAMAGE[1])
        _apply(w, "restore")
        cover("r_prior")
    dmg1 = pick(DAMAGE, d1)
    if dmg1 != "none":
        _apply(w, dmg1)
    dmg2 = pick(DAMAGE[:3], d2)
    if dmg2 != "none":
        _apply(w, dmg2)
    block, unblock = pick(BLOCKS, blk)
    if block != "none":
        _apply(w, block)
        blocked = not w.ftp_path()
        check(blocked, "harness: block had no effect")
        cover("r_blocked")
    pre = w.snapshot()[1]
    if use_fix:
        _apply(w, "svc_fix")
        fixing = w.svc.health_state_actual.name == "FIXING"
        for _ in range(4):
            if w.svc.health_state_actual.name != "FIXING":
                break
            _apply(w, "tick")
        check(w.svc.health_state_actual.name != "FIXING", "fix did not complete within fixing_duration + 1 ticks")
        if fixing and block == "none" and w.backup_health == "GOOD":
            cover("r_fix_restored")
            check(w.snapshot()[1] == (True, "GOOD"), "completed fix over an open path did not restore the healthy backup")
    else:
        _apply(w, "restore")
    if block != "none" and block != "svc_restart":
        check(w.snapshot()[1] == pre, "database.db changed although the service was down / the backup path blocked")
    # lift the block, restore for real, read
    if unblock == "ticks":
        for _ in range(8):
            if w.svc.operating_state.name == "RUNNING":
                break
            _apply(w, "tick")
        check(w.svc.operating_state.name == "RUNNING", "harness: restart did not finish")
    elif unblock is not None:
        _apply(w, unblock)
    check(w.ftp_path(), "harness: path not open after lifting the block")
    _apply(w, "restore")
    if w.backup_health == "GOOD":
        cover("r_restored_good")
        check(w.snapshot()[1] == (True, "GOOD"), "healthy backup restored but database.db is not GOOD")
        if w.svc.health_state_actual.name == "GOOD":
            _apply(w, "query_a_SELECT")
            cover("r_read_after_restore")
    else:
        cover("r_unhealthy_backup")


RED_BLOCKS = ["none", "svc_stop", "svc_pause", "db_off", "acl_block_db", "full"]


def db_redapp(app: int, blk: int, wrong_pw: bool, again: bool, between: int):
    """The red applications of the anchors (RansomwareScript -> ENCRYPT, DataManipulationBot -> DELETE) reach the data
    only through a password-gated connection of the host's DatabaseClient to a running, reachable service."""
    assume(all_of(rng(app, 0, 1), rng(blk, 0, len(RED_BLOCKS) - 1), rng(between, 0, 3)))
    with concrete():
        w = _World(0)
        w.install_red_apps("q" if wrong_pw else "p")
    block = pick(RED_BLOCKS, blk)
    w.svc.max_sessions = 2 if block == "full" else 10
    if block not in ("none", "full"):
        _apply(w, block)
    op = pick(["ransomware_b", "dmbot_b"], app)
    _apply(w, op)
    if again:
        mid = pick(["none", "restore_after_backup", "svc_restart", "query_a_SELECT"], between)
        if mid == "restore_after_backup":
            assume(block == "none")
            _apply(w, "restore")
        elif mid != "none":
            _apply(w, mid)
        _apply(w, op)
    cover("red_done")


_S4_PREFIXES = [(21, 7), (21, 8), (21, 30), (21, 31), (0, 20), (20, 0), (0, 7), (7, 21), (15, 16), (23, 24), (19, 0), (27, 1), (36, 13), (35, 1)]

HARNESSES = {
    "db_gate": {
        "fn": db_gate,
        "quick": [{"fixed": {}, "timeout": 400}],
        "thorough": [{"fixed": {}, "timeout": 900}],
        "cover": ["gate_node_off", "gate_service_down"],
        "bounds": "inductive step: all 4 node states x 6 service states x 5 software-health states (minus ON+RUNNING), "
        "payload in {connect with the right password, DELETE, ENCRYPT, disconnect} on an open connection, either "
        "client, any max_sessions >= 3",
    },
    "db_connect": {
        "fn": db_connect,
        "quick": [{"fixed": {"hs": h}, "timeout": 400} for h in range(5)],
        "thorough": [{"fixed": {"hs": h}, "timeout": 900} for h in range(5)],
        "cover": ["opened", "wrong_password", "at_capacity", "overwhelmed_with_free_capacity"],
        "bounds": "inductive step on a RUNNING service / ON node: 5 software-health states x 7 file states x any subset "
        "of 2 open connections x ANY integer max_sessions x service password and supplied password in {None,'p','q'} "
        "x either client",
    },
    "db_sql": {
        "fn": db_sql,
        "quick": [{"fixed": {"hs": h, "from_b": b}, "timeout": 500} for h in range(5) for b in (False, True)],
        "thorough": [{"fixed": {"hs": h}, "timeout": 900} for h in range(5)],
        "cover": ["open", "not_open", "healthy", "deleted", "encrypted", "read_compromised", "unknown_query"],
        "bounds": "inductive step on a RUNNING service / ON node: 5 software-health states x 7 file states (6 health "
        "values, deleted) x any subset of 2 open connections x 6 queries (SELECT/INSERT/DELETE/ENCRYPT/pg_stat/unknown) "
        "x connection id in {A's, B's, closed, never issued, None} x either client",
    },
    "db_disconnect": {
        "fn": db_disconnect,
        "quick": [{"fixed": {}, "timeout": 300}],
        "thorough": [{"fixed": {}, "timeout": 600}],
        "cover": ["closed", "refused"],
        "bounds": "inductive step: 5 software-health states x any subset of 2 open connections x id in {A's, B's, "
        "closed, never issued, None} x sender in {A, B}",
    },
    "client_step": {
        "fn": client_step,
        "quick": [{"fixed": {}, "timeout": 300}],
        "thorough": [{"fixed": {}, "timeout": 600}],
        "cover": [
            "client_connected",
            "client_refused",
            "client_query_ok",
            "client_query_failed",
            "client_disconnected",
            "client_uninstalled",
            "server_led_disconnect",
            "execute_ok",
        ],
        "bounds": "inductive step on the client: 4 node states x 3 application states x with/without native connection "
        "x 7 operations x 5 solver-chosen server replies to a connect x 5 to a query x 3 queries",
    },
    "db_session": {
        "fn": db_session,
        "quick": [{"fixed": {"n_ops": 2, "grp": g, "ngrp": 6}, "timeout": 400} for g in range(6)],
        # first operations 12 (raw_closed_id) and 29 (acl_unblock) are infeasible from the warm start: left out
        "thorough": [{"fixed": {"n_ops": 3, "op0": o}, "timeout": 1500} for o in range(len(OPS)) if o not in (12, 29)]
        + [{"fixed": {"n_ops": 3, "op0": o, "dur": 1}, "timeout": 1500} for o in (23, 25)]
        + [{"fixed": {"n_ops": 4, "op0": a, "op1": b}, "timeout": 1500} for a, b in _S4_PREFIXES],
        "cover": [
            "s_done",
            "s_connected",
            "s_refused",
            "s_query_ok",
            "s_deleted",
            "s_encrypted",
            "s_disconnected",
            "s_uninstalled",
            "s_backup",
            "s_auto_backup",
            "s_raw",
            "s_server_terminated",
        ],
        "bounds": {
            "quick": "every sequence of 2 operations out of 38 (tick, connect A/B with right/wrong/no password, 6 "
            "queries, forged/closed id, disconnect, uninstall, server-led close, service stop/start/pause/resume/"
            "restart/fix, backup, restore, power off/on of server/backup/client host, ACL block of the database or FTP "
            "port / unblock, file/folder deletion, ftp-server stop/start, execute) from the warm initial state (A and B "
            "connected, password set) over a routed network; any max_sessions >= 2",
            "thorough": "every sequence of 3 operations (one job per first operation), 3 operations with 1-tick power "
            "transitions after a server/backup power-off, and every sequence of 4 operations behind 14 chosen 2-operation "
            "prefixes (backup+damage, tick+fix, stop+start, off+on, restart+tick, ACL block+connect, ...)",
        },
    },
    "db_redapp": {
        "fn": db_redapp,
        "quick": [{"fixed": {}, "timeout": 400}],
        "thorough": [{"fixed": {}, "timeout": 900}],
        "cover": ["red_done", "s_red_connected", "s_red_damaged"],
        "bounds": "RansomwareScript / DataManipulationBot (stage probabilities 1) on client B's host x block in {none, "
        "service stop, pause, server off, ACL on the database port, service full} x right/wrong password x one or two "
        "attacks with {nothing, restore, service restart, a read by A} in between",
    },
    "db_restore": {
        "fn": db_restore,
        "quick": [{"fixed": {"blk": b, "d2": 0}, "timeout": 400} for b in range(len(BLOCKS))],
        "thorough": [{"fixed": {"blk": b}, "timeout": 1500} for b in range(len(BLOCKS))],
        "cover": ["r_blocked", "r_restored_good", "r_read_after_restore", "r_unhealthy_backup", "r_fix_restored"],
        "bounds": {
            "quick": "scenario of 6-12 operations: damage before backup in {none, DELETE, ENCRYPT} x backup explicit or by "
            "tick 1 x damage in {none, DELETE, ENCRYPT, file deletion, folder deletion} x block in {none, service stop, "
            "pause, restart, server off, backup host off, ACL on FTP, ftp-server stop} x restore explicit or by service "
            "fix (fixing_duration 1..3) + ticks, then unblock, restore, read",
            "thorough": "as quick plus a second damage in {none, DELETE, ENCRYPT} after the first",
        },
    },
}

"""C13 - services and applications follow their lifecycle; only running software works (Engine S).

Every harness drives REAL Service / Application instances installed on a real Computer (wired to a peer) through the
request API (``Simulation.apply_request``), real ticks (``Simulation.pre_timestep/apply_timestep``), real frames handed
to the node's NIC, and the real install / uninstall entry points.  The oracles are written from

* docs/source/action_masking.rst (request -> source states: scan/stop/pause/restart/fix need RUNNING, start needs
  STOPPED, resume needs PAUSED, enable needs DISABLED, disable/execute/install/remove need only "node is on"),
* the enum docstrings of ServiceOperatingState / ApplicationOperatingState and the field docstrings
  ("restart_duration: how many timesteps does it take to restart", "restart_countdown: how many timesteps remain until
  the restart is finished", same for install_duration / install_countdown),
* docs/source/simulation_components/system/software.rst (software only works on a node that is ON; services stop when
  the node powers off and come back when it powers on),
* the property statement (non-running software handles no payload and keeps no port open; install / uninstall keep
  software list, request routes, open ports and reported state in agreement).

Harnesses
---------
svc_step  one event from an ARBITRARY pre-state (operating state x health x countdown x node power state) of a service
          type: status + successor against the table, refusals leave the state alone, one tick of a RESTARTING service
          obeys the inductive timing invariant (unbounded countdown / duration), payloads, open ports.
app_step  the same for application types (CLOSED / RUNNING / INSTALLING, install_countdown).
svc_run / app_run   bounded runs from the real initial state, reference machine stepped alongside, timed transitions
          measured in ticks against the band oracle.
sw_registry  sequences of install / uninstall (request API and SoftwareManager API) + lifecycle ops over several types:
          the four registries, the request routes, the open ports and describe_state() agree after every step.
uninstall_connected  uninstall / close / node power-off of a database-client that holds real connections to a real
          database-service on the peer, then re-install through the request API.
port_sharing  a RUNNING software keeps its port and its payloads when software with the same (port, protocol) is
          installed next to it, stopped or uninstalled (pair 0 is the control; the other pairs currently fail - the
          SoftwareManager keeps ONE software per (port, protocol)).
"""
from __future__ import annotations

import copy

from vlib.chdriver import all_of, assume, check, cover, fail, pick, rng
from vlib.fixtures import CallLog, concrete, mk_host, new_sim, quiet

SOURCES = [
    "/repo/src/primaite/simulator/system/services/service.py",
    "/repo/src/primaite/simulator/system/applications/application.py",
    "/repo/src/primaite/simulator/system/software.py",
    "/repo/src/primaite/simulator/system/core/software_manager.py",
    "/repo/src/primaite/simulator/system/core/session_manager.py",
    "/repo/src/primaite/simulator/network/hardware/base.py",
    "/repo/src/primaite/simulator/network/hardware/nodes/host/host_node.py",
    "/repo/src/primaite/simulator/system/applications/red_applications/data_manipulation_bot.py",
    "/repo/src/primaite/simulator/system/applications/red_applications/dos_bot.py",
    "/repo/src/primaite/simulator/system/applications/red_applications/ransomware_script.py",
    "/repo/src/primaite/simulator/system/applications/red_applications/c2/abstract_c2.py",
    "/repo/src/primaite/simulator/system/applications/database_client.py",
    "/repo/src/primaite/simulator/system/applications/web_browser.py",
    "/repo/src/primaite/simulator/system/applications/nmap.py",
    "/repo/src/primaite/simulator/system/services/terminal/terminal.py",
    "/repo/src/primaite/simulator/system/services/ntp/ntp_client.py",
    "/repo/src/primaite/simulator/system/services/ntp/ntp_server.py",
    "/repo/src/primaite/simulator/system/services/dns/dns_client.py",
    "/repo/src/primaite/simulator/system/services/dns/dns_server.py",
    "/repo/src/primaite/simulator/system/services/icmp/icmp.py",
    "/repo/src/primaite/simulator/system/services/arp/arp.py",
    "/repo/src/primaite/simulator/system/services/ftp/ftp_client.py",
    "/repo/src/primaite/simulator/system/services/ftp/ftp_server.py",
    "/repo/src/primaite/simulator/system/services/database/database_service.py",
    "/repo/src/primaite/simulator/system/services/web_server/web_server.py",
]
ENCODED = [
    "primaite.simulator.system.services.service.Service._init_request_manager/_StateValidator/start/stop/pause/resume/"
    "restart/disable/enable/apply_timestep/_can_perform_action/receive (and every shipped subclass override)",
    "primaite.simulator.system.applications.application.Application._init_request_manager/_StateValidator/run/close/"
    "install/apply_timestep/pre_timestep/_can_perform_action/receive (and every shipped subclass override, incl. the "
    "per-type 'execute' request)",
    "primaite.simulator.system.software.Software.fix/scan/apply_timestep/_update_fix_status, IOSoftware.receive/send",
    "primaite.simulator.system.core.software_manager.SoftwareManager.install/uninstall/get_open_ports/"
    "receive_payload_from_session_manager",
    "primaite.simulator.system.core.session_manager.SessionManager.receive_frame/receive_payload_from_software_manager",
    "primaite.simulator.network.hardware.base.Node._init_request_manager (_install_application/_uninstall_application, "
    "service/application routes, _NodeIsOnValidator), Node.apply_timestep/pre_timestep/power_on/power_off/"
    "_start_up_actions/_shut_down_actions/describe_state",
    "primaite.simulator.network.hardware.nodes.host.host_node.HostNode.receive_frame, NIC.receive_frame",
    "primaite.simulator.core.RequestManager.__call__ (through Simulation.apply_request)",
]
ASSUMPTIONS = [
    "SysLog/PacketCapture/AgentLog methods are stubbed to no-ops (log text never feeds behaviour)",
    "step harnesses: the pre-state ranges over the representation invariant {operating_state: every enum member; "
    "health: every SoftwareHealthState; RESTARTING => 0 <= restart_countdown <= restart_duration; INSTALLING(app) => "
    "0 <= install_countdown <= install_duration; FIXING => 1 <= _fixing_countdown; node OFF/BOOTING => software not "
    "RUNNING/PAUSED; every other software on the node in its default state}; durations/countdowns are unbounded "
    "solver integers >= 0; node power states are reached with the real power_on/power_off (start-up / shut-down "
    "duration 0 for ON/OFF, 50 for the transitional states)",
    "timing oracle: a timed transition requested with duration d needs n ticks with d <= n <= max(d+1, 2) (the tick "
    "that follows the request in the same step is tick 1; n = 0, i.e. instantaneous completion, is accepted only for "
    "d = 0). Inductive form used with unbounded integers: the request leaves countdown == duration; a tick from "
    "countdown c >= 2 leaves the state and c-1; from c == 1 it completes or leaves c == 0; from c == 0 it completes",
    "timed transitions are only timed while the node stays ON (software on a node that is not ON is not ticked); a "
    "RESTARTING service / INSTALLING application on a node that powers off may stay as it is or be stopped/closed",
    "payloads are one representative well-formed payload per software type (the request / reply that type acts on), "
    "delivered in a real frame to the node's NIC: (frame) as is, (shared) after another RUNNING service of the node "
    "was configured with the documented listen_on_ports option to listen on the same port number, which opens the "
    "node's port gate whatever the state of the software under test; ICMP frames are never gated",
    "'handled' = the software's receive() returned a truthy value, or the node emitted a frame, or the software's "
    "describe_state() changed; for the 17 types with a protocol of their own a RUNNING, healthy instance on an ON node "
    "must handle the payload (guards against a vacuous payload table)",
    "NTP payloads (datetime inside) are delivered with CrossHair tracing switched off: its datetime shim cannot be "
    "deep-copied, and SoftwareManager deep-copies payloads for listening software; all values involved are concrete",
    "the pseudo port 0 ('NONE') is not counted as a port in the open-port oracle",
    "FTP services deliberately report operating_state STOPPED in describe_state() while RUNNING but idle "
    "(FTPServiceABC.describe_state); the reported-state agreement check exempts ftp-client / ftp-server",
    "fix: the health-state side conditions belong to C14; here fix must be refused unless RUNNING, must be accepted "
    "when RUNNING with health GOOD/COMPROMISED, and never changes the operating state; for database-service a pending "
    "fix is not allowed to complete inside the step (completion restores a backup over FTP - C17)",
    "execute (per-type request of applications; ping_scan for nmap): only its lifecycle consequences are checked - it "
    "never takes an INSTALLING application out of INSTALLING, it may open a CLOSED application (the 'run' transition), "
    "a RUNNING application stays RUNNING, and an application that is not RUNNING afterwards has sent nothing and "
    "answers 'failure'",
    "sw_registry uses application/service types whose (port, protocol) is not used by other software of the node; "
    "software sharing a (port, protocol) is the subject of port_sharing",
    "services are re-installed only for system services (what a config that declares them again does); installing a "
    "second database-service/web-server raises in FileSystem.create_file (C15)",
]

SVC_STATES = ["RUNNING", "STOPPED", "PAUSED", "DISABLED", "INSTALLING", "RESTARTING"]
APP_STATES = ["RUNNING", "CLOSED", "INSTALLING"]
HEALTHS = ["UNUSED", "GOOD", "FIXING", "COMPROMISED", "OVERWHELMED"]
NODE_STATES = ["ON", "OFF", "SHUTTING_DOWN", "BOOTING"]

SVC_TYPES = [
    "dns-client",
    "ntp-client",
    "terminal",
    "ftp-client",
    "arp",
    "icmp",
    "user-manager",
    "user-session-manager",
    "dns-server",
    "ntp-server",
    "web-server",
    "ftp-server",
    "database-service",
]
APP_TYPES = [
    "web-browser",
    "nmap",
    "database-client",
    "ransomware-script",
    "data-manipulation-bot",
    "dos-bot",
    "c2-beacon",
    "c2-server",
]

# request -> documented source states (docs/source/action_masking.rst), successor (enum docstrings)
SVC_REQ = {
    "start": (("STOPPED",), "RUNNING"),
    "stop": (("RUNNING",), "STOPPED"),
    "pause": (("RUNNING",), "PAUSED"),
    "resume": (("PAUSED",), "RUNNING"),
    "restart": (("RUNNING",), "RESTARTING"),
    "disable": (tuple(SVC_STATES), "DISABLED"),
    "enable": (("DISABLED",), "STOPPED"),
    "scan": (("RUNNING",), None),
    "fix": (("RUNNING",), None),
}
SVC_OPS = ["start", "stop", "pause", "resume", "restart", "disable", "enable", "scan", "fix", "tick", "frame", "shared", "shutdown", "startup"]
APP_OPS = ["close", "scan", "fix", "execute", "install", "tick", "frame", "shared", "uninstall", "shutdown", "startup"]

A_IP, B_IP = "192.168.1.2", "192.168.1.3"
# FTPServiceABC.describe_state deliberately reports a RUNNING but idle FTP service as STOPPED (code comment there)
FTP_IDLE_REPORTS_STOPPED = ("ftp-client", "ftp-server")


# ----------------------------------------------------------------------------------------------------------------
# world
# ----------------------------------------------------------------------------------------------------------------
class World:
    pass


def _registries():
    import primaite.simulator.network.hardware.nodes.host.computer  # noqa: F401
    import primaite.simulator.network.hardware.nodes.host.server  # noqa: F401
    import primaite.game.game  # noqa: F401  (imports every shipped service / application module)
    from primaite.simulator.system.applications.application import Application
    from primaite.simulator.system.services.service import Service

    return Service._registry, Application._registry


def _world(install=(), host="computer") -> World:
    """Computer node_a (under test) wired to pc_b, both ON, durations 0; `install` = software types added to node_a."""
    quiet()
    sreg, areg = _registries()
    w = World()
    w.sim = new_sim()
    w.b = mk_host("computer", "pc_b", B_IP, start_up_duration=0, shut_down_duration=0)
    w.a = mk_host(host, "node_a", A_IP, start_up_duration=0, shut_down_duration=0)
    for n in (w.a, w.b):
        n.power_on()
        w.sim.network.add_node(n)
    w.sim.network.connect(w.a.network_interface[1], w.b.network_interface[1])
    for name in install:
        if name not in w.a.software_manager.software:
            w.a.software_manager.install(sreg[name] if name in sreg else areg[name])
    w.log = CallLog()
    for nic in w.a.network_interface.values():
        w.log.wrap(nic, "send_frame", "a_send")
    w.t = 0
    return w


def _watch_receive(w: World, x):
    """Record calls of x.receive and what it returned."""
    orig = x.receive
    rec = w.recv = []

    def wrapper(*a, **k):
        r = orig(*a, **k)
        rec.append(r)
        return r

    object.__setattr__(x, "receive", wrapper)


def _tick(w: World):
    w.t += 1
    w.sim.pre_timestep(w.t)
    w.sim.apply_timestep(w.t)


def _req(w: World, *tail):
    return w.sim.apply_request(["network", "node", "node_a"] + list(tail))


def _set_node_state(w: World, st: str):
    """Drive node_a into power state st with the real API (called inside concrete())."""
    a = w.a
    if st == "SHUTTING_DOWN":
        a.config.shut_down_duration = 50
        a.power_off()
    elif st in ("OFF", "BOOTING"):
        a.power_off()
        if st == "BOOTING":
            a.config.start_up_duration = 50
            a.power_on()
    check(a.operating_state.name == st, "harness could not establish the node pre-state")


# ----------------------------------------------------------------------------------------------------------------
# representative payloads
# ----------------------------------------------------------------------------------------------------------------
def _payload_for(name: str, w: World):
    """(ip protocol, destination port, payload) of the representative payload for software type `name`."""
    from ipaddress import IPv4Address
    from datetime import datetime

    x = w.a.software_manager.software[name]
    proto, port = x.protocol, x.port
    p = {"type": "noop"}
    if name in ("dns-server", "dns-client"):
        from primaite.simulator.network.protocols.dns import DNSPacket, DNSReply, DNSRequest

        p = DNSPacket(dns_request=DNSRequest(domain_name_request="example.com"))
        if name == "dns-client":
            p.dns_reply = DNSReply(domain_name_ip_address=IPv4Address("10.9.8.7"))
    elif name in ("ntp-server", "ntp-client"):
        from primaite.simulator.network.protocols.ntp import NTPPacket, NTPReply

        p = NTPPacket()
        if name == "ntp-client":
            p.ntp_reply = NTPReply(ntp_datetime=datetime(2025, 1, 2, 3, 4, 5))
    elif name == "web-server":
        from primaite.simulator.network.protocols.http import HttpRequestMethod, HttpRequestPacket

        p = HttpRequestPacket(request_method=HttpRequestMethod.GET, request_url="http://example.com/")
    elif name == "web-browser":
        from primaite.simulator.network.protocols.http import HttpResponsePacket, HttpStatusCode

        p = HttpResponsePacket(status_code=HttpStatusCode.OK)
    elif name in ("ftp-server", "ftp-client"):
        from primaite.simulator.network.protocols.ftp import FTPCommand, FTPPacket, FTPStatusCode

        p = FTPPacket(ftp_command=FTPCommand.PORT, ftp_command_args=21)
        if name == "ftp-client":
            p.status_code = FTPStatusCode.OK
    elif name == "database-service":
        p = {"type": "connect_request", "password": None, "connection_request_id": "req-1"}
    elif name in ("database-client", "dos-bot"):
        # a query result (a connect_response would make the client record a connection to a server it never configured;
        # tearing that down on uninstall sends to destination None, which SessionManager does not survive - C17's subject)
        p = {"type": "sql", "uuid": "query-1", "status_code": 200, "data": {}}
    elif name == "terminal":
        from primaite.simulator.network.protocols.ssh import (
            SSHConnectionMessage,
            SSHPacket,
            SSHTransportMessage,
            SSHUserCredentials,
        )

        p = SSHPacket(
            transport_message=SSHTransportMessage.SSH_MSG_USERAUTH_REQUEST,
            connection_message=SSHConnectionMessage.SSH_MSG_CHANNEL_OPEN,
            user_account=SSHUserCredentials(username="admin", password="admin"),
            connection_request_uuid="req-1",
        )
    elif name in ("c2-beacon", "c2-server"):
        from primaite.simulator.network.protocols.masquerade import C2Packet
        from primaite.simulator.system.applications.red_applications.c2.abstract_c2 import C2Payload

        p = C2Packet(masquerade_protocol="tcp", masquerade_port=80, payload_type=C2Payload.KEEP_ALIVE, keep_alive_frequency=5)
        x.c2_remote_connection = IPv4Address(B_IP)  # a keep-alive from the configured remote end
        proto, port = "tcp", 80  # the C2 applications listen on 80/21/53
    elif name == "nmap":
        from primaite.simulator.system.applications.nmap import PortScanPayload

        p = PortScanPayload(ip_address=IPv4Address(A_IP), port=80, protocol="tcp", request=True)
        proto, port = "tcp", 80
    elif name == "arp":
        from primaite.simulator.network.protocols.arp import ARPPacket

        p = ARPPacket(
            request=True,
            sender_mac_addr=w.b.network_interface[1].mac_address,
            sender_ip_address=IPv4Address(B_IP),
            target_ip_address=IPv4Address(A_IP),
        )
    elif name == "icmp":
        proto, port, p = "icmp", None, None
    return proto, port, p


def _frame_for(name: str, w: World):
    from primaite.simulator.network.protocols.icmp import ICMPPacket
    from primaite.simulator.network.transmission.data_link_layer import EthernetHeader, Frame
    from primaite.simulator.network.transmission.network_layer import IPPacket
    from primaite.simulator.network.transmission.transport_layer import TCPHeader, UDPHeader

    proto, port, p = _payload_for(name, w)
    an, bn = w.a.network_interface[1], w.b.network_interface[1]
    kw = {}
    if proto == "icmp":
        kw["icmp"] = ICMPPacket(identifier=7)
    elif proto == "udp":
        kw["udp"] = UDPHeader(src_port=port, dst_port=port)
    else:
        proto = "tcp"
        kw["tcp"] = TCPHeader(src_port=port, dst_port=port)
    return Frame(
        ethernet=EthernetHeader(src_mac_addr=bn.mac_address, dst_mac_addr=an.mac_address),
        ip=IPPacket(src_ip_address=B_IP, dst_ip_address=A_IP, protocol=proto),
        payload=p,
        **kw,
    )


_WARM = set()
# software types whose representative payload exercises the type's own receive() logic (the others only have the
# generic IOSoftware.receive and sit on the pseudo port 0)
PAYLOAD_TYPES = (
    "dns-client", "ntp-client", "terminal", "ftp-client", "arp", "icmp", "dns-server", "ntp-server", "web-server",
    "ftp-server", "database-service", "web-browser", "nmap", "database-client", "dos-bot", "c2-beacon", "c2-server",
)
# CrossHair's datetime shim cannot deepcopy a datetime (SoftwareManager deep-copies payloads for listening software):
# payloads carrying a datetime are delivered untraced (every value involved is concrete on the path anyway)
UNTRACED_DELIVERY = ("ntp-client", "ntp-server")


def _warm(name: str, kind: str):
    """Once per process and software type, run a delivery to a RUNNING instance untraced: pydantic builds some model
    schemas lazily on first use, which must not happen while CrossHair traces isinstance()."""
    if (name, kind) in _WARM:
        return
    _WARM.add((name, kind))
    with concrete():
        w = _world(install=(name,))
        x = w.a.software_manager.software[name]
        if x.operating_state.name == "CLOSED":
            x.run()
        _watch_receive(w, x)
        for shared in (False, True):
            try:
                _deliver(w, name, shared, warm=False)
            except Exception:
                pass


def _deliver(w: World, name: str, shared: bool, warm: bool = True):
    """Hand the representative payload for `name` to node_a in a real frame on its NIC. With shared=True another
    RUNNING service of the node is first configured to listen on the same port number (the documented
    `listen_on_ports` option), so the node's port gate is open whatever the state of `name`."""
    x = w.a.software_manager.software[name]
    with concrete():
        frame = _frame_for(name, w)
        if shared and not frame.icmp:
            port = frame.tcp.dst_port if frame.tcp else frame.udp.dst_port
            yname = "ntp-client" if name not in ("ntp-client", "ntp-server") else "dns-client"
            y = w.a.software_manager.software[yname]
            y.listen_on_ports = set(y.listen_on_ports) | {port}
        before = copy.deepcopy(x.describe_state())
    if warm:
        _warm(name, "deliver")
    w.log.clear()
    del w.recv[:]
    if name in UNTRACED_DELIVERY:
        with concrete():
            w.a.network_interface[1].receive_frame(frame)
    else:
        w.a.network_interface[1].receive_frame(frame)
    with concrete():
        after = copy.deepcopy(x.describe_state())
    truthy = False
    for r in w.recv:
        if r:
            truthy = True
    return {"called": len(w.recv) > 0, "truthy": truthy, "sent": w.log.count("a_send"), "changed": before != after}


def _open_ports_oracle(w: World, both_directions: bool, where: str):
    sm = w.a.software_manager
    with concrete():
        exp = set()
        for s in sm.software.values():
            if s.operating_state.name == "RUNNING":
                exp.add(int(s.port))
                exp |= {int(q) for q in s.listen_on_ports}
        got = {int(q) for q in sm.get_open_ports()}
        exp.discard(0)
        got.discard(0)
        extra, missing = sorted(got - exp), sorted(exp - got)
    check(not extra, f"{where}: ports {extra} reported open although no RUNNING software uses them")
    if both_directions:
        check(not missing, f"{where}: ports {missing} of RUNNING software are not open")


def _check_inert(w: World, name: str, st: str, res, how: str):
    check(not res["truthy"], f"{name} in state {st} handled a payload ({how}): receive() returned a truthy value")
    check(res["sent"] == 0, f"node emitted {res['sent']} frame(s) when {name} in state {st} was given a payload ({how})")
    check(not res["changed"], f"{name} in state {st} changed its reported state on a payload ({how})")


def _power_op(w: World, x, name: str, opn: str, ref: str, is_service: bool) -> str:
    """Node shutdown / startup request (the worlds use start-up / shut-down duration 0 unless the node was put into a
    transitional state): software.rst - software stops when its node powers off and comes back when it powers on."""
    nstate = w.a.operating_state.name
    active = ("RUNNING", "PAUSED") if is_service else ("RUNNING",)
    timed = "RESTARTING" if is_service else "INSTALLING"
    down = "STOPPED" if is_service else "CLOSED"
    resp = _req(w, opn)
    now = x.operating_state.name if x is not None else ref
    ok = nstate == ("ON" if opn == "shutdown" else "OFF")
    check(resp.status == ("success" if ok else "failure"), f"node {opn} on a node that is {nstate} answered {resp.status}")
    if not ok:
        check(now == ref, f"refused node {opn} moved {name} from {ref} to {now}")
        return ref
    if opn == "shutdown":
        check(w.a.operating_state.name == "OFF", f"node is {w.a.operating_state.name} after a zero-duration shutdown")
        cover("powered_off")
        if ref in active:
            check(now == down, f"{name} is {now} after its node powered off (was {ref})")
            return down
        if ref == timed:
            check(now in (timed, down), f"node power-off moved {name} from {ref} to {now}")
            return now
        check(now == ref, f"node power-off moved {name} from {ref} to {now}")
        return ref
    check(w.a.operating_state.name == "ON", f"node is {w.a.operating_state.name} after a zero-duration start-up")
    cover("powered_on")
    if ref == down:
        check(now == "RUNNING", f"{name} is {now} after its node powered on (was {ref})")
        return "RUNNING"
    check(now == ref, f"node power-on moved {name} from {ref} to {now}")
    return ref


# ----------------------------------------------------------------------------------------------------------------
# services
# ----------------------------------------------------------------------------------------------------------------
def _svc_request(w: World, x, name: str, op: str, pre: str, node_on: bool, h0: str, rd):
    """One lifecycle request on service x whose state is `pre`; returns the reference successor."""
    src, succ = SVC_REQ[op]
    pre_c, pre_h, pre_fc = x.restart_countdown, x.health_state_actual, x.fixing_count
    resp = _req(w, "service", name, op)
    accepted = node_on and pre in src
    now = x.operating_state.name
    if not accepted:
        check(resp.status == "failure", f"{op} on {name} in state {pre} (node on: {node_on}) answered {resp.status}")
        check(now == pre, f"refused {op} moved {name} from {pre} to {now}")
        check(x.restart_countdown is pre_c or x.restart_countdown == pre_c, f"refused {op} changed restart_countdown")
        check(x.health_state_actual is pre_h, f"refused {op} changed the health state of {name}")
        return pre
    cover("accepted_" + op)
    if op == "fix":
        if h0 in ("GOOD", "COMPROMISED"):
            check(resp.status == "success", f"fix on RUNNING {name} with health {h0} answered {resp.status}")
        check(now == pre, f"fix moved {name} from {pre} to {now}")
        return pre
    check(resp.status == "success", f"{op} on {name} in state {pre} answered {resp.status}")
    if op == "scan":
        check(now == pre, f"scan moved {name} from {pre} to {now}")
        return pre
    if op == "restart":
        if now == "RUNNING":
            check(rd == 0, lambda: f"restart of {name} completed instantly although restart_duration is not 0")
            return "RUNNING"
        check(now == "RESTARTING", f"restart moved {name} to {now}")
        check(
            x.restart_countdown == rd,
            lambda: f"after restart, restart_countdown of {name} is not restart_duration",
        )
        return "RESTARTING"
    check(now == succ, f"{op} moved {name} from {pre} to {now}, documented successor is {succ}")
    return succ


def svc_step(
    s0: int,
    h0: int,
    n0: int,
    op: int,
    rd: int,
    rc: int,
    fd: int,
    fc: int,
    stype: str = "dns-client",
    host: str = "computer",
):
    """Inductive step: one event on a service of type stype from an arbitrary pre-state of the invariant."""
    assume(
        all_of(
            rng(s0, 0, len(SVC_STATES) - 1),
            rng(h0, 0, len(HEALTHS) - 1),
            rng(n0, 0, len(NODE_STATES) - 1),
            rng(op, 0, len(SVC_OPS) - 1),
            rd >= 0,
            rc >= 0,
            fd >= 0,
            fc >= 1,
        )
    )
    from primaite.simulator.system.services.service import ServiceOperatingState
    from primaite.simulator.system.software import SoftwareHealthState

    st0, hl0, nst, opn = pick(SVC_STATES, s0), pick(HEALTHS, h0), pick(NODE_STATES, n0), pick(SVC_OPS, op)
    node_on = nst == "ON"
    assume(node_on or nst == "SHUTTING_DOWN" or st0 not in ("RUNNING", "PAUSED"))
    with concrete():
        w = _world(install=(stype,), host=host)
        x = w.a.software_manager.software[stype]
        _watch_receive(w, x)
        _set_node_state(w, nst)
    x.operating_state = ServiceOperatingState[st0]
    x.health_state_actual = SoftwareHealthState[hl0]
    x.restart_duration = rd
    x.config.fixing_duration = fd
    if st0 == "RESTARTING":
        assume(rc <= rd)
    x.restart_countdown = rc
    if stype == "database-service" and hl0 == "FIXING" and opn == "tick":
        # completing a fix makes DatabaseService restore its backup over FTP (C17's subject; without a configured
        # backup server that raises) - keep the fix pending across this tick
        assume(fc >= 2)
    x._fixing_countdown = fc if hl0 == "FIXING" else None
    running = st0 == "RUNNING"

    if opn in SVC_REQ:
        post = _svc_request(w, x, stype, opn, st0, node_on, hl0, rd)
    elif opn == "tick":
        _tick_checked_svc(w, x, stype, st0, node_on, rc)
        post = x.operating_state.name
    elif opn in ("shutdown", "startup"):
        post = _power_op(w, x, stype, opn, st0, True)
    else:
        post = st0
        res = _deliver(w, stype, shared=(opn == "shared"))
        check(x.operating_state.name == st0, f"a payload moved {stype} from {st0} to {x.operating_state.name}")
        if not running or not node_on:
            _check_inert(w, stype, st0 if node_on else st0 + " on a node that is " + nst, res, opn)
            cover("inert_checked")
        elif hl0 == "GOOD" and stype in PAYLOAD_TYPES:
            check(
                res["truthy"] or res["sent"] > 0 or res["changed"],
                f"RUNNING {stype} on an ON node did not handle its payload ({opn}; receive() called: {res['called']})",
            )
            cover("handled_when_running")
    cover("post_" + post)
    if w.a.operating_state.name == "ON":
        _open_ports_oracle(w, False, f"after {opn} on {stype} ({st0}->{post})")
        with concrete():
            mine = {int(x.port)} | {int(q) for q in x.listen_on_ports}
            mine.discard(0)
            others = set()
            for s in w.a.software_manager.software.values():
                if s is not x and s.operating_state.name == "RUNNING":
                    others |= {int(s.port)} | {int(q) for q in s.listen_on_ports}
            got = {int(q) for q in w.a.software_manager.get_open_ports()}
        if post == "RUNNING":
            check(mine <= got, f"{stype} is RUNNING after {opn} but its port is not open")
            cover("port_open")
        else:
            check(not ((mine - others) & got), f"{stype} is {post} after {opn} but its port is still open")
            cover("port_closed")


def _tick_checked_svc(w: World, x, name: str, pre: str, node_on: bool, rc):
    w.log.clear()
    _tick(w)
    now = x.operating_state.name
    if not node_on:
        check(now == pre or (pre in ("RUNNING", "PAUSED") and now == "STOPPED"), f"tick on a non-ON node moved {name} {pre}->{now}")
        return
    if pre != "RESTARTING":
        check(now == pre, f"a tick moved {name} from {pre} to {now}")
        if pre != "RUNNING":
            check(w.log.count("a_send") == 0, f"node emitted a frame during a tick while {name} is {pre}")
        return
    # inductive timing invariant for a countdown c = rc
    if now == "RESTARTING":
        check(rc >= 1, "restart with countdown 0 did not complete on the tick")
        check(x.restart_countdown == rc - 1, "tick did not decrease restart_countdown by exactly 1")
        cover("restart_continues")
    else:
        check(now == "RUNNING", f"restart of {name} ended in {now}")
        check(rc <= 1, lambda: "restart completed although more than 1 tick remained on restart_countdown")
        cover("restart_completes")


def svc_run(
    rd: int,
    op0: int,
    op1: int,
    op2: int,
    op3: int,
    op4: int,
    op5: int,
    n_ops: int = 3,
    dmax: int = 3,
    stype: str = "dns-client",
):
    """n_ops events from the real initial state (freshly installed service on an ON node) + ticks until a pending
    restart settles; reference machine and band timing oracle alongside."""
    RUN_OPS = SVC_OPS
    ops = [op0, op1, op2, op3, op4, op5][:n_ops]
    assume(all_of(rng(rd, 0, dmax), *[rng(o, 0, len(RUN_OPS) - 1) for o in ops]))
    with concrete():
        w = _world(install=(stype,))
        x = w.a.software_manager.software[stype]
        _watch_receive(w, x)
    check(x.operating_state.name == "RUNNING", f"freshly installed {stype} on an ON node is {x.operating_state.name}")
    x.restart_duration = rd
    if stype == "database-service":
        # a completed fix makes DatabaseService restore a backup over FTP, which raises without a configured backup
        # server (C17's subject): keep a requested fix pending for the whole bounded run
        x.config.fixing_duration = 1000
    ref = "RUNNING"
    elapsed = 0  # ticks since the pending restart was requested
    names = [pick(RUN_OPS, o) for o in ops]
    k = 0
    while k < len(names) or (ref == "RESTARTING" and w.a.operating_state.name == "ON" and k < len(names) + dmax + 3):
        opn = names[k] if k < len(names) else "tick"
        k += 1
        node_on = w.a.operating_state.name == "ON"
        if opn in SVC_REQ:
            nref = _svc_request(w, x, stype, opn, ref, node_on, x.health_state_actual.name, rd)
            if opn == "restart" and ref == "RUNNING" and node_on:
                elapsed = 0
            ref = nref
        elif opn == "tick":
            w.log.clear()
            _tick(w)
            now = x.operating_state.name
            if ref == "RESTARTING" and node_on:
                elapsed += 1
                if now == "RUNNING":
                    check(elapsed >= rd, lambda: f"restart of {stype} completed after {elapsed} ticks, earlier than restart_duration")
                    ref = "RUNNING"
                    cover("restart_done")
                else:
                    check(now == "RESTARTING", f"restart of {stype} ended in {now}")
                    check(
                        elapsed < max(rd + 1, 2),
                        lambda: f"restart of {stype} still pending after {elapsed} ticks (restart_duration {rd})",
                    )
            else:
                check(now == ref, f"a tick moved {stype} from {ref} to {now}")
        elif opn in ("frame", "shared"):
            res = _deliver(w, stype, shared=(opn == "shared"))
            check(x.operating_state.name == ref, f"a payload moved {stype} from {ref} to {x.operating_state.name}")
            if ref != "RUNNING" or not node_on:
                _check_inert(w, stype, ref, res, opn)
                cover("inert_checked")
        elif opn in ("shutdown", "startup"):
            ref = _power_op(w, x, stype, opn, ref, True)
        if w.a.operating_state.name == "ON":
            _open_ports_oracle(w, False, f"after {opn} on {stype}")
        else:
            check(
                x.operating_state.name not in ("RUNNING", "PAUSED"),
                f"{stype} is {x.operating_state.name} on a node that is {w.a.operating_state.name}",
            )
    check(not (ref == "RESTARTING" and w.a.operating_state.name == "ON"), "restart never settled (harness bound)")
    cover("end_" + ref)


# ----------------------------------------------------------------------------------------------------------------
# applications
# ----------------------------------------------------------------------------------------------------------------
def _app_request(w: World, x, name: str, op: str, pre: str, node_on: bool, h0: str):
    """close / scan / fix / execute on application x whose state is `pre`; returns the reference successor."""
    pre_c, pre_h = x.install_countdown, x.health_state_actual
    w.log.clear()
    has_exec = "execute" in x._request_manager.request_types
    if op == "execute" and name == "nmap":
        # nmap's active request is the ping scan (its 'execute')
        resp = _req(w, "application", name, "ping_scan", {"target_ip_address": B_IP, "show": False})
        has_exec = True
    else:
        resp = _req(w, "application", name, op)
    now = x.operating_state.name
    if op == "execute":
        if not node_on:
            check(resp.status == "failure", f"execute on {name} on a non-ON node answered {resp.status}")
            check(now == pre, f"refused execute moved {name} from {pre} to {now}")
            check(w.log.count("a_send") == 0, "refused execute emitted a frame")
            return pre
        if not has_exec:
            check(resp.status == "unreachable", f"{name} has no execute request but answered {resp.status}")
            check(now == pre, f"unroutable execute moved {name} from {pre} to {now}")
            return pre
        if pre == "INSTALLING":
            check(now == "INSTALLING", f"execute moved an INSTALLING {name} to {now}")
            check(x.install_countdown is pre_c or x.install_countdown == pre_c, "execute changed install_countdown")
        elif pre == "RUNNING":
            check(now == "RUNNING", f"execute moved a RUNNING {name} to {now}")
        else:
            check(now in ("CLOSED", "RUNNING"), f"execute moved a CLOSED {name} to {now}")
        if now != "RUNNING":
            check(resp.status == "failure", f"execute on {name} that stays {now} answered {resp.status}")
            check(w.log.count("a_send") == 0, f"execute on {name} that stays {now} emitted a frame")
        cover("execute_" + pre)
        return now
    accepted = node_on and pre == "RUNNING"
    if not accepted:
        check(resp.status == "failure", f"{op} on {name} in state {pre} (node on: {node_on}) answered {resp.status}")
        check(now == pre, f"refused {op} moved {name} from {pre} to {now}")
        check(x.install_countdown is pre_c or x.install_countdown == pre_c, f"refused {op} changed install_countdown")
        check(x.health_state_actual is pre_h, f"refused {op} changed the health state of {name}")
        return pre
    cover("accepted_" + op)
    if op == "fix":
        if h0 in ("GOOD", "COMPROMISED"):
            check(resp.status == "success", f"fix on RUNNING {name} with health {h0} answered {resp.status}")
        check(now == pre, f"fix moved {name} from {pre} to {now}")
        return pre
    check(resp.status == "success", f"{op} on RUNNING {name} answered {resp.status}")
    if op == "scan":
        check(now == pre, f"scan moved {name} from {pre} to {now}")
        return pre
    check(now == "CLOSED", f"close moved {name} to {now}")
    return "CLOSED"


def _registries_agree(w: World, where: str, ports_both: bool = True):
    """software list == node.applications+node.services == request routes == describe_state; mapping not stale."""
    a = w.a
    sm = a.software_manager
    from primaite.simulator.system.applications.application import Application
    from primaite.simulator.system.services.service import Service

    with concrete():
        sw_apps = sorted(n for n, s in sm.software.items() if isinstance(s, Application))
        sw_svcs = sorted(n for n, s in sm.software.items() if isinstance(s, Service))
        keys_ok = all(n == s.name for n, s in sm.software.items())
        node_apps = sorted(s.name for s in a.applications.values())
        node_svcs = sorted(s.name for s in a.services.values())
        same_objs = all(sm.software.get(s.name) is s for s in list(a.applications.values()) + list(a.services.values()))
        uuid_ok = all(k == s.uuid for k, s in list(a.applications.items()) + list(a.services.items()))
        app_routes = sorted(a._application_request_manager.request_types)
        svc_routes = sorted(a._service_request_manager.request_types)
        routes_ok = all(
            a._application_request_manager.request_types[n].func is sm.software[n]._request_manager
            for n in app_routes
            if n in sm.software
        ) and all(
            a._service_request_manager.request_types[n].func is sm.software[n]._request_manager
            for n in svc_routes
            if n in sm.software
        )
        stale = sorted(str(k) for k, s in sm.port_protocol_mapping.items() if sm.software.get(s.name) is not s)
        parents_ok = all(s.parent is a and s.software_manager is sm for s in sm.software.values())
        ds = a.describe_state()
        ds_apps, ds_svcs = sorted(ds["applications"]), sorted(ds["services"])
        ds_states_ok = all(
            ds["applications"][n]["operating_state"] == sm.software[n].operating_state.value for n in ds_apps if n in sm.software
        ) and all(
            ds["services"][n]["operating_state"] == sm.software[n].operating_state.value
            for n in ds_svcs
            if n in sm.software and n not in FTP_IDLE_REPORTS_STOPPED
        )
    check(keys_ok, f"{where}: software_manager.software is keyed by something other than the software's name")
    check(node_apps == sw_apps, f"{where}: node.applications {node_apps} != applications in software_manager.software {sw_apps}")
    check(node_svcs == sw_svcs, f"{where}: node.services {node_svcs} != services in software_manager.software {sw_svcs}")
    check(same_objs and uuid_ok, f"{where}: node.applications/services hold different objects than software_manager.software")
    check(app_routes == sw_apps, f"{where}: application request routes {app_routes} != installed applications {sw_apps}")
    check(svc_routes == sw_svcs, f"{where}: service request routes {svc_routes} != installed services {sw_svcs}")
    check(routes_ok, f"{where}: a request route leads to an object that is not the installed software")
    check(not stale, f"{where}: port_protocol_mapping entries {stale} point to software that is not installed")
    check(parents_ok, f"{where}: installed software is not attached to the node / software manager")
    check(ds_apps == sw_apps and ds_svcs == sw_svcs, f"{where}: describe_state lists {ds_apps}/{ds_svcs}, installed {sw_apps}/{sw_svcs}")
    check(ds_states_ok, f"{where}: describe_state reports an operating state different from the installed software's")
    if a.operating_state.name == "ON":
        _open_ports_oracle(w, ports_both, where)


def app_step(
    s0: int,
    h0: int,
    n0: int,
    op: int,
    idur: int,
    ic: int,
    fd: int,
    fc: int,
    atype: str = "database-client",
    host: str = "computer",
):
    """Inductive step: one event on an application of type atype from an arbitrary pre-state of the invariant."""
    assume(
        all_of(
            rng(s0, 0, len(APP_STATES) - 1),
            rng(h0, 0, len(HEALTHS) - 1),
            rng(n0, 0, len(NODE_STATES) - 1),
            rng(op, 0, len(APP_OPS) - 1),
            idur >= 0,
            ic >= 0,
            fd >= 0,
            fc >= 1,
        )
    )
    from primaite.simulator.system.applications.application import ApplicationOperatingState
    from primaite.simulator.system.software import SoftwareHealthState

    st0, hl0, nst, opn = pick(APP_STATES, s0), pick(HEALTHS, h0), pick(NODE_STATES, n0), pick(APP_OPS, op)
    node_on = nst == "ON"
    assume(node_on or nst == "SHUTTING_DOWN" or st0 != "RUNNING")
    with concrete():
        w = _world(install=(atype,), host=host)
        x = w.a.software_manager.software[atype]
        _watch_receive(w, x)
        _set_node_state(w, nst)
    x.operating_state = ApplicationOperatingState[st0]
    x.health_state_actual = SoftwareHealthState[hl0]
    x.install_duration = idur
    x.config.fixing_duration = fd
    if st0 == "INSTALLING":
        assume(ic <= idur)
        x.install_countdown = ic
    else:
        x.install_countdown = None
    x._fixing_countdown = fc if hl0 == "FIXING" else None
    post = st0
    if opn in ("close", "scan", "fix", "execute"):
        post = _app_request(w, x, atype, opn, st0, node_on, hl0)
    elif opn == "install":
        # the application is installed already: the request succeeds and changes nothing
        resp = _req(w, "software_manager", "application", "install", atype)
        if not node_on:  # (on an ON node the answer for an already installed application is not documented)
            check(resp.status == "failure", f"install request on a non-ON node answered {resp.status}")
        check(w.a.software_manager.software.get(atype) is x, f"install replaced the installed {atype}")
        check(x.operating_state.name == st0, f"install moved installed {atype} from {st0} to {x.operating_state.name}")
    elif opn == "uninstall":
        resp = _req(w, "software_manager", "application", "uninstall", atype)
        if node_on:
            check(resp.status == "success", f"uninstall of installed {atype} answered {resp.status}")
            check(atype not in w.a.software_manager.software, f"{atype} still installed after uninstall")
            r2 = _req(w, "application", atype, "scan")
            check(r2.status == "unreachable", f"request to uninstalled {atype} answered {r2.status}")
            post = "UNINSTALLED"
            cover("uninstalled")
        else:
            check(resp.status == "failure", f"uninstall on a non-ON node answered {resp.status}")
            check(w.a.software_manager.software.get(atype) is x, "refused uninstall removed the application")
    elif opn == "tick":
        w.log.clear()
        _tick(w)
        now = x.operating_state.name
        if not node_on:
            check(now == st0 or (st0 == "RUNNING" and now == "CLOSED"), f"tick on a non-ON node moved {atype} {st0}->{now}")
        elif st0 != "INSTALLING":
            check(now == st0, f"a tick moved {atype} from {st0} to {now}")
            if st0 != "RUNNING":
                check(w.log.count("a_send") == 0, f"node emitted a frame during a tick while {atype} is {st0}")
        elif now == "INSTALLING":
            check(ic >= 1, "install with countdown 0 did not complete on the tick")
            check(x.install_countdown == ic - 1, "tick did not decrease install_countdown by exactly 1")
            cover("install_continues")
        else:
            check(now == "RUNNING", f"install of {atype} ended in {now}")
            check(ic <= 1, lambda: "install completed although more than 1 tick remained on install_countdown")
            cover("install_completes")
        post = now
    elif opn in ("shutdown", "startup"):
        post = _power_op(w, x, atype, opn, st0, False)
    else:
        res = _deliver(w, atype, shared=(opn == "shared"))
        check(x.operating_state.name == st0, f"a payload moved {atype} from {st0} to {x.operating_state.name}")
        if st0 != "RUNNING" or not node_on:
            _check_inert(w, atype, st0 if node_on else st0 + " on a node that is " + nst, res, opn)
            cover("inert_checked")
        elif hl0 == "GOOD" and atype in PAYLOAD_TYPES:
            check(
                res["truthy"] or res["sent"] > 0 or res["changed"],
                f"RUNNING {atype} on an ON node did not handle its payload ({opn}; receive() called: {res['called']})",
            )
            cover("handled_when_running")
    cover("post_" + post)
    _registries_agree(w, f"after {opn} on {atype} ({st0}->{post})", ports_both=False)
    if w.a.operating_state.name == "ON" and post != "UNINSTALLED":
        with concrete():
            mine = {int(x.port)} | {int(q) for q in x.listen_on_ports}
            mine.discard(0)
            others = set()
            for s in w.a.software_manager.software.values():
                if s is not x and s.operating_state.name == "RUNNING":
                    others |= {int(s.port)} | {int(q) for q in s.listen_on_ports}
            got = {int(q) for q in w.a.software_manager.get_open_ports()}
        if post == "RUNNING":
            check(mine <= got, f"{atype} is RUNNING after {opn} but its port is not open")
        else:
            check(not ((mine - others) & got), f"{atype} is {post} after {opn} but its port is still open")


def app_run(
    idur: int,
    op0: int,
    op1: int,
    op2: int,
    op3: int,
    op4: int,
    op5: int,
    n_ops: int = 3,
    dmax: int = 3,
    atype: str = "database-client",
):
    """n_ops events from the real initial state (application not installed on an ON node; installed through the
    request API) + ticks until a pending install settles."""
    RUN_OPS = APP_OPS
    ops = [op0, op1, op2, op3, op4, op5][:n_ops]
    assume(all_of(rng(idur, 0, dmax), *[rng(o, 0, len(RUN_OPS) - 1) for o in ops]))
    _sreg, areg = _registries()
    with concrete():
        w = _world()
        if atype in w.a.software_manager.software:
            w.a.software_manager.uninstall(atype)
    _registries_agree(w, "initial state", ports_both=False)
    ref = "UNINSTALLED"
    elapsed = 0
    x = None
    names = [pick(RUN_OPS, o) for o in ops]
    k = 0
    while k < len(names) or (ref == "INSTALLING" and w.a.operating_state.name == "ON" and k < len(names) + dmax + 3):
        opn = names[k] if k < len(names) else "tick"
        k += 1
        node_on = w.a.operating_state.name == "ON"
        if opn == "install":
            resp = _req(w, "software_manager", "application", "install", atype)
            if not node_on:
                check(resp.status == "failure", f"install on a non-ON node answered {resp.status}")
                check((atype in w.a.software_manager.software) == (ref != "UNINSTALLED"), "refused install changed the software list")
            else:
                if ref == "UNINSTALLED":
                    check(resp.status == "success", f"install of {atype} answered {resp.status}")
                    x = w.a.software_manager.software.get(atype)
                    check(x is not None, f"{atype} not in the software list after a successful install")
                    with concrete():
                        _watch_receive(w, x)
                    # the duration is a class-level default: overwrite the fresh instance's fields with the symbolic d
                    check(x.operating_state.name == "INSTALLING", f"freshly installed {atype} is {x.operating_state.name}")
                    check(x.install_countdown == x.install_duration, "install_countdown != install_duration after install")
                    x.install_duration = idur
                    x.install_countdown = idur
                    ref = "INSTALLING"
                    elapsed = 0
                    cover("installed")
                else:
                    check(w.a.software_manager.software.get(atype) is x, f"install replaced the installed {atype}")
                    check(x.operating_state.name == ref, f"install moved installed {atype} from {ref} to {x.operating_state.name}")
        elif opn == "uninstall":
            resp = _req(w, "software_manager", "application", "uninstall", atype)
            if not node_on or ref == "UNINSTALLED":
                check(resp.status != "success", f"uninstall ({ref}, node on: {node_on}) answered {resp.status}")
                check((atype in w.a.software_manager.software) == (ref != "UNINSTALLED"), "refused uninstall changed the software list")
            else:
                check(resp.status == "success", f"uninstall of installed {atype} answered {resp.status}")
                check(atype not in w.a.software_manager.software, f"{atype} still installed after uninstall")
                ref = "UNINSTALLED"
                x = None
                cover("uninstalled")
        elif ref == "UNINSTALLED":
            if opn in ("close", "scan", "fix", "execute"):
                resp = _req(w, "application", atype, opn)
                check(
                    resp.status == ("unreachable" if node_on else "failure"),
                    f"{opn} on an application that is not installed answered {resp.status}",
                )
            elif opn == "tick":
                _tick(w)
            elif opn in ("shutdown", "startup"):
                _power_op(w, None, atype, opn, ref, False)
        elif opn in ("close", "scan", "fix", "execute"):
            ref = _app_request(w, x, atype, opn, ref, node_on, x.health_state_actual.name)
        elif opn == "tick":
            w.log.clear()
            _tick(w)
            now = x.operating_state.name
            if ref == "INSTALLING" and node_on:
                elapsed += 1
                if now == "RUNNING":
                    check(elapsed >= idur, lambda: f"install of {atype} completed after {elapsed} ticks, earlier than install_duration")
                    ref = "RUNNING"
                    cover("install_done")
                else:
                    check(now == "INSTALLING", f"install of {atype} ended in {now}")
                    check(
                        elapsed < max(idur + 1, 2),
                        lambda: f"install of {atype} still pending after {elapsed} ticks (install_duration {idur})",
                    )
            else:
                check(now == ref, f"a tick moved {atype} from {ref} to {now}")
        elif opn in ("frame", "shared"):
            if node_on:
                res = _deliver(w, atype, shared=(opn == "shared"))
                check(x.operating_state.name == ref, f"a payload moved {atype} from {ref} to {x.operating_state.name}")
                if ref != "RUNNING" or not node_on:
                    _check_inert(w, atype, ref, res, opn)
                    cover("inert_checked")
        elif opn in ("shutdown", "startup"):
            ref = _power_op(w, x, atype, opn, ref, False)
        if x is not None and w.a.operating_state.name != "ON":
            check(x.operating_state.name != "RUNNING", f"{atype} is RUNNING on a node that is {w.a.operating_state.name}")
        _registries_agree(w, f"after {opn} on {atype} (now {ref})", ports_both=False)
    check(not (ref == "INSTALLING" and w.a.operating_state.name == "ON"), "install never settled (harness bound)")
    cover("end_" + ref)


# ----------------------------------------------------------------------------------------------------------------
# install / uninstall registries over several types
# ----------------------------------------------------------------------------------------------------------------
# application / service types whose (port, protocol) is theirs alone on a default computer (shared ports: port_sharing)
REG_TYPES = ["ransomware-script", "web-browser", "c2-beacon", "database-client", "nmap", "data-manipulation-bot", "c2-server"]
REG_SVCS = ["dns-client", "terminal", "ftp-client", "ntp-client"]  # system services a config may declare again
REG_OPS = ["req_install", "req_uninstall", "sm_install", "sm_uninstall", "svc_install", "svc_uninstall", "tick", "run", "close", "svc_stop"]


def sw_registry(
    k0: int,
    x0: int,
    k1: int,
    x1: int,
    k2: int,
    x2: int,
    k3: int,
    x3: int,
    n_ops: int = 2,
    n_types: int = 4,
    n_svcs: int = 2,
):
    """n_ops operations (kind k_i on software index x_i) from a default computer: after each one the software list,
    node.applications / node.services, the request routes, port_protocol_mapping, the open ports and describe_state()
    agree; none of the entry points raises."""
    ks, xs = [k0, k1, k2, k3][:n_ops], [x0, x1, x2, x3][:n_ops]
    assume(all_of(*[rng(k, 0, len(REG_OPS) - 1) for k in ks], *[rng(x, 0, n_types - 1) for x in xs]))
    sreg, areg = _registries()
    with concrete():
        w = _world()
    _registries_agree(w, "initial state")
    sm = w.a.software_manager
    for i in range(n_ops):
        kind = pick(REG_OPS, ks[i])
        aname = pick(REG_TYPES[:n_types], xs[i])
        sname = REG_SVCS[0]
        for j in range(1, n_svcs):
            if xs[i] == j:
                sname = REG_SVCS[j]
        with concrete():
            installed = aname in sm.software
            s_installed = sname in sm.software
        what = f"op {i} {kind}"
        try:
            if kind == "req_install":
                old = sm.software.get(aname)
                resp = _req(w, "software_manager", "application", "install", aname)
                check(aname in sm.software, f"{aname} missing from the software list after install")
                if not installed:
                    check(resp.status == "success", f"install request for {aname} answered {resp.status}")
                    now = sm.software[aname].operating_state.name
                    check(now in ("INSTALLING", "RUNNING"), f"freshly installed {aname} is {now}")
                    cover("req_installed")
                else:
                    check(sm.software[aname] is old, f"install request replaced the installed {aname}")
            elif kind == "req_uninstall":
                resp = _req(w, "software_manager", "application", "uninstall", aname)
                check(
                    (resp.status == "success") == installed,
                    f"uninstall request for {aname} (installed: {installed}) answered {resp.status}",
                )
                check(aname not in sm.software, f"{aname} still in the software list after uninstall")
                r2 = _req(w, "application", aname, "scan")
                check(r2.status == "unreachable", f"request to uninstalled {aname} answered {r2.status}")
                if installed:
                    cover("req_uninstalled")
            elif kind == "sm_install":
                sm.install(areg[aname])
                check(aname in sm.software, f"{aname} missing from the software list after SoftwareManager.install")
                if installed:
                    cover("sm_reinstall")
            elif kind == "sm_uninstall":
                sm.uninstall(aname)
                check(aname not in sm.software, f"{aname} still in the software list after SoftwareManager.uninstall")
            elif kind == "svc_install":
                sm.install(type(sm.software[sname]) if s_installed else sreg[sname])
                check(sname in sm.software, f"{sname} missing from the software list after SoftwareManager.install")
                check(sm.software[sname].operating_state.name == "RUNNING", f"freshly installed service {sname} is not RUNNING")
                cover("svc_reinstalled" if s_installed else "svc_installed")
            elif kind == "svc_uninstall":
                sm.uninstall(sname)
                check(sname not in sm.software, f"{sname} still in the software list after SoftwareManager.uninstall")
                if s_installed:
                    cover("svc_uninstalled")
            elif kind == "tick":
                _tick(w)
            elif kind == "run":
                if installed:
                    sm.software[aname].run()
            elif kind == "close":
                if installed:
                    resp = _req(w, "application", aname, "close")
                    now = sm.software[aname].operating_state.name
                    check(now != "RUNNING", f"{aname} RUNNING after close request ({resp.status})")
            elif kind == "svc_stop":
                if s_installed:
                    _req(w, "service", sname, "stop")
        except Exception as e:  # totality: install / uninstall / lifecycle entry points do not raise
            fail(f"{what} on {aname}/{sname} raised {type(e).__name__}: {e}")
        _registries_agree(w, f"after {what} ({aname}/{sname})")
    cover("done")


# ----------------------------------------------------------------------------------------------------------------
# software that shares a (port, protocol) with other software on the node
# ----------------------------------------------------------------------------------------------------------------
# (first, second): `first` is installed and RUNNING, then `second` is installed. Pair 0 is the control (distinct ports).
SHARE_PAIRS = [
    ("dns-client", "database-service"),
    ("database-service", "database-client"),
    ("database-service", "dos-bot"),
    ("web-browser", "web-server"),
    ("dns-client", "dns-server"),
    ("ntp-client", "ntp-server"),
    ("ftp-client", "ftp-server"),
    ("database-client", "dos-bot"),
]
SHARE_ACTS = ["none", "stop_second", "uninstall_second"]


def port_sharing(pair: int, act: int):
    """A RUNNING software keeps its port open and keeps handling its payloads when another software with the same
    port number is installed next to it, stopped/closed, or uninstalled again."""
    assume(all_of(rng(pair, 0, len(SHARE_PAIRS) - 1), rng(act, 0, len(SHARE_ACTS) - 1)))
    first, second = pick(SHARE_PAIRS, pair)
    what = pick(SHARE_ACTS, act)
    sreg, areg = _registries()
    with concrete():
        w = _world(install=(first,))
        x = w.a.software_manager.software[first]
        if x.operating_state.name == "CLOSED":
            x.run()
        _watch_receive(w, x)
    check(x.operating_state.name == "RUNNING", f"{first} could not be brought to RUNNING")
    sm = w.a.software_manager
    if second in areg:
        resp = _req(w, "software_manager", "application", "install", second)
        check(resp.status == "success", f"install request for {second} answered {resp.status}")
    else:
        sm.install(sreg[second])
    y = sm.software[second]
    if what == "stop_second":
        if second in areg:
            y.close()
        else:
            _req(w, "service", second, "stop")
    elif what == "uninstall_second":
        sm.uninstall(second)
    check(sm.software.get(first) is x and x.operating_state.name == "RUNNING", f"{first} did not stay RUNNING")
    _registries_agree(w, f"{first} RUNNING, {second} installed, then {what}", ports_both=True)
    res = _deliver(w, first, shared=False)
    check(
        res["called"] and (res["truthy"] or res["sent"] > 0 or res["changed"]),
        f"RUNNING {first} no longer receives its payloads after {second} was installed ({what}): "
        f"receive() called: {res['called']}",
    )
    cover("pair_%d" % pair)


def port_survivor(pair: int, how: int):
    """Two pieces of software share a port number; the EARLIER-installed one is stopped/closed or uninstalled: the one
    that stays installed and RUNNING keeps its port open and its registry entry. (Independent of the recorded
    open finding, which concerns acting on the LATER-installed one.)"""
    assume(all_of(rng(pair, 1, len(SHARE_PAIRS) - 1), rng(how, 0, 1)))
    first, second = pick(SHARE_PAIRS, pair)
    sreg, areg = _registries()
    with concrete():
        w = _world(install=(first,))
        sm = w.a.software_manager
        x = sm.software[first]
        if x.operating_state.name == "CLOSED":
            x.run()
        if second in areg:
            _req(w, "software_manager", "application", "install", second)
        else:
            sm.install(sreg[second])
        y = sm.software[second]
        y.install_duration = 0
        for t in range(1, 4):  # let an application finish installing
            w.sim.pre_timestep(t)
            w.sim.apply_timestep(t)
        if y.operating_state.name == "CLOSED":
            y.run()
    check(y.operating_state.name == "RUNNING", f"{second} could not be brought to RUNNING")
    with concrete():
        owner_before = sm.port_protocol_mapping.get((y.port, y.protocol))
        open_before = y.port in sm.get_open_ports()
    if pick(["uninstall_first", "stop_first"], how) == "uninstall_first":
        sm.uninstall(first)
        cover("uninstalled_first")
    else:
        if first in areg:
            x.close()
        else:
            _req(w, "service", first, "stop")
        cover("stopped_first")
    check(sm.software.get(second) is y and y.operating_state.name == "RUNNING", f"{second} did not stay RUNNING")
    check(sm.port_protocol_mapping.get((y.port, y.protocol)) is owner_before, lambda: f"acting on {first} changed the port owner registered for {second}'s port")
    check((y.port in sm.get_open_ports()) == open_before, lambda: f"acting on {first} changed whether RUNNING {second}'s port {y.port} is reported open")
    check(y.port in sm.get_open_ports(), lambda: f"RUNNING {second}: port {y.port} not open after {first} was removed/stopped")


# ----------------------------------------------------------------------------------------------------------------
# uninstall / close / power-off with open connections, then re-install
# ----------------------------------------------------------------------------------------------------------------
CONN_HOW = ["req_uninstall", "sm_uninstall", "close", "node_shutdown"]


def uninstall_connected(n_conn: int, how: int, again: bool, idur: int, dmax: int = 2):
    """node_a's database-client holds n_conn (+1 native) real connections to a database-service on pc_b; it is then
    uninstalled (request / SoftwareManager), closed or its node is shut down; optionally it is installed again through
    the request API, left to finish installing, and must work again."""
    assume(all_of(rng(n_conn, 0, 2), rng(how, 0, len(CONN_HOW) - 1), rng(idur, 0, dmax)))
    from ipaddress import IPv4Address

    sreg, areg = _registries()
    hw = pick(CONN_HOW, how)
    with concrete():
        w = _world(install=("database-client",))
        w.b.software_manager.install(sreg["database-service"])
        db = w.b.software_manager.software["database-service"]
        x = w.a.software_manager.software["database-client"]
        x.run()
        x.configure(server_ip_address=IPv4Address(B_IP))
    check(x.connect(), "RUNNING database-client could not connect to a RUNNING database-service")
    for _ in range(n_conn):
        check(x.get_new_connection() is not None, "RUNNING database-client could not open another connection")
    check(len(db.connections) == n_conn + 1, "server does not list the client's connections")
    cover("connected")
    sm = w.a.software_manager
    try:
        if hw == "req_uninstall":
            resp = _req(w, "software_manager", "application", "uninstall", "database-client")
            check(resp.status == "success", f"uninstall request answered {resp.status}")
        elif hw == "sm_uninstall":
            sm.uninstall("database-client")
        elif hw == "close":
            resp = _req(w, "application", "database-client", "close")
            check(resp.status == "success", f"close request answered {resp.status}")
            check(x.operating_state.name == "CLOSED", "database-client not CLOSED after close")
        else:
            resp = _req(w, "shutdown")
            check(resp.status == "success", f"node shutdown answered {resp.status}")
            check(x.operating_state.name == "CLOSED", "database-client not CLOSED after its node powered off")
    except Exception as e:
        fail(f"{hw} with {n_conn + 1} open connections raised {type(e).__name__}: {e}")
    if hw in ("req_uninstall", "sm_uninstall"):
        check("database-client" not in sm.software, "database-client still installed")
        check(len(db.connections) == 0, "uninstalling the client left its connections open on the server")
        check(not x.client_connections, "uninstalled client still holds connections")
        cover("uninstalled_connected")
    _registries_agree(w, f"after {hw} with open connections")
    if again and hw in ("req_uninstall", "sm_uninstall"):
        resp = _req(w, "software_manager", "application", "install", "database-client")
        check(resp.status == "success", f"re-install answered {resp.status}")
        y = sm.software.get("database-client")
        check(y is not None and y is not x, "re-install did not create a fresh database-client")
        check(y.operating_state.name == "INSTALLING", f"re-installed database-client is {y.operating_state.name}")
        y.install_duration = idur
        y.install_countdown = idur
        check(not y.connect(), "INSTALLING database-client connected to the server")
        n = 0
        while y.operating_state.name == "INSTALLING" and n < dmax + 3:
            _tick(w)
            n += 1
        check(y.operating_state.name == "RUNNING", "re-installed database-client never finished installing")
        check(n >= idur and n <= max(idur + 1, 2), lambda: f"re-install took {n} ticks for install_duration {idur}")
        _registries_agree(w, "after re-install")
        y.configure(server_ip_address=IPv4Address(B_IP))
        check(y.connect(), "re-installed RUNNING database-client cannot connect")
        cover("reinstalled_works")


_INSTALL = APP_OPS.index("install")

HARNESSES = {
    "svc_step": {
        "fn": svc_step,
        "quick": [{"fixed": {"stype": t, "host": "computer"}, "timeout": 300} for t in SVC_TYPES],
        "thorough": [{"fixed": {"stype": t, "host": h}, "timeout": 900} for t in SVC_TYPES for h in ("computer", "server")],
        "cover": [
            "post_RUNNING", "post_STOPPED", "post_PAUSED", "post_DISABLED", "post_RESTARTING", "post_INSTALLING",
            "accepted_start", "accepted_stop", "accepted_pause", "accepted_resume", "accepted_restart",
            "accepted_disable", "accepted_enable", "accepted_scan", "accepted_fix",
            "restart_continues", "restart_completes", "inert_checked", "handled_when_running", "port_open",
            "port_closed", "powered_off", "powered_on",
        ],
        "bounds": {
            "quick": "every shipped service type (13) on a computer; every ServiceOperatingState x SoftwareHealthState x "
            "node power state as pre-state; restart/fixing durations and countdowns unbounded integers; one event of 14",
            "thorough": "the same on computer and server hosts (the step harness is already unbounded in its integers)",
        },
    },
    "app_step": {
        "fn": app_step,
        "quick": [{"fixed": {"atype": t, "host": "computer"}, "timeout": 300} for t in APP_TYPES],
        "thorough": [{"fixed": {"atype": t, "host": h}, "timeout": 900} for t in APP_TYPES for h in ("computer", "server")],
        "cover": [
            "post_RUNNING", "post_CLOSED", "post_INSTALLING", "post_UNINSTALLED", "accepted_close", "accepted_scan",
            "accepted_fix", "execute_CLOSED", "execute_RUNNING", "execute_INSTALLING", "install_continues",
            "install_completes", "inert_checked", "handled_when_running", "uninstalled", "powered_off", "powered_on",
        ],
        "bounds": {
            "quick": "every shipped application type (8) on a computer; every ApplicationOperatingState x "
            "SoftwareHealthState x node power state as pre-state; install/fixing durations and countdowns unbounded; "
            "one event of 11",
            "thorough": "the same on computer and server hosts",
        },
    },
    "svc_run": {
        "fn": svc_run,
        "quick": [{"fixed": {"n_ops": 2, "dmax": 2, "stype": t}, "timeout": 300} for t in ("dns-client", "web-server")],
        "thorough": [{"fixed": {"n_ops": 3, "dmax": 3, "stype": t}, "timeout": 1500} for t in SVC_TYPES]
        + [{"fixed": {"n_ops": 4, "dmax": 2, "stype": "ntp-server", "op0": o}, "timeout": 1500} for o in range(len(SVC_OPS))],
        "cover": ["restart_done", "end_RUNNING", "end_DISABLED", "end_STOPPED", "inert_checked", "powered_off", "powered_on"],
        "bounds": {
            "quick": "2 events of 14 from the freshly installed (RUNNING) service + ticks until a restart settles; "
            "restart_duration 0..2; dns-client and web-server",
            "thorough": "3 events, restart_duration 0..3, all 13 service types; 4 events (first one fixed per job), "
            "restart_duration 0..2, ntp-server",
        },
    },
    "app_run": {
        "fn": app_run,
        "quick": [{"fixed": {"n_ops": 2, "dmax": 2, "atype": "dos-bot"}, "timeout": 300}]
        + [
            {"fixed": {"n_ops": 3, "op0": _INSTALL, "dmax": 2, "atype": t}, "timeout": 300}
            for t in ("database-client", "data-manipulation-bot", "web-browser")
        ],
        "thorough": [{"fixed": {"n_ops": 3, "dmax": 3, "atype": t}, "timeout": 1500} for t in APP_TYPES]
        + [{"fixed": {"n_ops": 4, "op0": _INSTALL, "dmax": 3, "atype": t}, "timeout": 1500} for t in APP_TYPES],
        "cover": ["installed", "install_done", "uninstalled", "end_RUNNING", "end_UNINSTALLED", "end_CLOSED", "powered_off"],
        "bounds": {
            "quick": "from 'not installed': 2 free events (dos-bot) / install request + 2 free events of 11 (3 types) + "
            "ticks until the install settles; install_duration 0..2",
            "thorough": "3 free events and install + 3 free events, install_duration 0..3, all 8 application types",
        },
    },
    "sw_registry": {
        "fn": sw_registry,
        "quick": [{"fixed": {"n_ops": 2, "n_types": 4, "n_svcs": 2}, "timeout": 300}],
        "thorough": [{"fixed": {"n_ops": 2, "n_types": 7, "n_svcs": 4}, "timeout": 1500}]
        + [{"fixed": {"n_ops": 3, "n_types": 4, "n_svcs": 2, "k0": k}, "timeout": 1500} for k in range(len(REG_OPS))],
        "cover": ["done", "req_installed", "req_uninstalled", "svc_reinstalled", "svc_uninstalled", "sm_reinstall"],
        "bounds": {
            "quick": "2 operations of 10 kinds over 4 application types + 2 system services",
            "thorough": "2 operations over 7 application types + 4 system services; 3 operations over 4 + 2",
        },
    },
    "uninstall_connected": {
        "fn": uninstall_connected,
        "quick": [{"fixed": {"dmax": 2}, "timeout": 200}],
        "thorough": [{"fixed": {"dmax": 4}, "timeout": 600}],
        "cover": ["connected", "uninstalled_connected", "reinstalled_works"],
        "bounds": {
            "quick": "1..3 open connections x 4 ways of ending them x optional re-install with install_duration 0..2",
            "thorough": "install_duration 0..4",
        },
    },
    "port_survivor": {
        "fn": port_survivor,
        "quick": [{"fixed": {}, "timeout": 200}],
        "thorough": [{"fixed": {}, "timeout": 200}],
        "cover": ["uninstalled_first", "stopped_first"],
        "bounds": "7 software pairs sharing a port number; the earlier-installed one uninstalled or stopped/closed",
    },
    "port_sharing": {
        "fn": port_sharing,
        "quick": [{"fixed": {}, "timeout": 200}],
        "thorough": [{"fixed": {}, "timeout": 200}],
        "cover": ["pair_0"],
        "bounds": {"quick": "8 software pairs (7 sharing a port) x 3 follow-up actions", "thorough": "same"},
    },
}

"""C18 – a link never carries more than its bandwidth in a tick; down links carry nothing."""
from __future__ import annotations

import datetime as _dt

from vlib import chdriver
from vlib.chdriver import all_of, assume, check, cover, fail, pick, pick_int, rng
from vlib.fixtures import concrete, mk_host, new_sim, quiet

SOURCES = [
    "/repo/src/primaite/simulator/network/hardware/base.py",
    "/repo/src/primaite/simulator/network/airspace.py",
    "/repo/src/primaite/simulator/network/hardware/nodes/network/switch.py",
]
ENCODED = [
    "primaite.simulator.network.hardware.base.Link.can_transmit_frame / transmit_frame / pre_timestep / is_up / endpoint_down",
    "primaite.simulator.network.hardware.base.WiredNetworkInterface.send_frame",
    "primaite.simulator.network.hardware.nodes.network.switch.SwitchPort.send_frame",
    "primaite.simulator.network.airspace.AirSpace.can_transmit_frame / transmit / reset_bandwidth_load, WirelessNetworkInterface.send_frame (real wireless routers)",
    "Link.can_transmit_frame + transmit_frame accounting translated to FP64 (Engine T)",
]
ASSUMPTIONS = [
    "frames are duck-typed FakeFrame objects with a symbolic size_Mbits (Frame.size goes through pydantic-core's "
    "JSON serializer, which cannot be made symbolic); Engine S takes sizes/bandwidth as unbounded solver integers "
    "(exact arithmetic: ordering/nesting/accounting logic), the FP64 rounding behaviour of admission+accounting is "
    "decided separately by the Engine T obligations over all finite doubles",
    "the receiving interface's receive_frame is a stub that (under solver-chosen flags) sends a reply on the same link "
    "before returning and returns a solver-chosen accept/reject - this is what a request/reply exchange does",
    "sizes >= 0, bandwidth > 0, all finite",
    "like the real Frame (size = length of its serialisation) a FakeFrame grows by a solver-chosen amount once an "
    "interface stamps received_timestamp on it, and by another solver-chosen amount when the sending interface stamps "
    "sent_timestamp on it; the receiver stubs stamp before deciding, as the real interfaces do",
    "link_real_frames uses REAL frames (ARP/ICMP built and serialised by the real stack, real receive paths); only the "
    "bandwidth is symbolic there; the wall clock is stubbed to a constant instant and the random ICMP identifier to a "
    "constant (the serialised length of a frame depends on their digits, which would make paths non-replayable)",
    "f-strings of symbolic values (frame size in Link.transmit_frame's debug message) are rendered as a placeholder: in "
    "the functions encoded here formatted text only feeds logging",
]


_FIXED_INSTANT = _dt.datetime(2026, 1, 1, 12, 0, 0, 123456)  # built at import time: a real (C) datetime


class _FixedClock(_dt.datetime):
    """Clock stub: a constant instant, so that the serialised length of a stamped frame (which depends on the digits
    of the wall clock) is the same on every explored path."""

    @classmethod
    def now(cls, tz=None):
        return _FIXED_INSTANT


class FakeFrame:
    """size_Mbits mirrors the real Frame: its size is the length of its serialisation, which GROWS by a fixed amount
    once an interface stamps received_timestamp on it (the real NICs stamp before deciding whether to accept) and by
    another amount when the sending interface stamps sent_timestamp on it (validated against the real Frame by
    frame_growth_model)."""

    def __init__(self, size, stamp_extra=0, sent_extra=0):
        self._size = size
        self._extra = stamp_extra
        self._sent_extra = sent_extra
        self.received_timestamp = None
        self.tcp = None
        self.udp = None
        self.icmp = object()
        self.ip = None
        self.payload = None
        self.sent_timestamp = None

    @property
    def size_Mbits(self):
        return self._size + (self._extra if self.received_timestamp is not None else 0) + (self._sent_extra if self.sent_timestamp is not None else 0)

    def set_sent_timestamp(self):
        if self.sent_timestamp is None:
            self.sent_timestamp = "stamped"

    def set_received_timestamp(self):
        if self.received_timestamp is None:
            self.received_timestamp = "stamped"


def _two_hosts():
    quiet()
    chdriver.OPAQUE_SYMBOLIC_FORMAT = True
    sim = new_sim()
    a = mk_host("computer", "pc_a", "192.168.1.2", start_up_duration=0)
    b = mk_host("computer", "pc_b", "192.168.1.3", start_up_duration=0)
    a.power_on()
    b.power_on()
    sim.network.add_node(a)
    sim.network.add_node(b)
    sim.network.connect(a.network_interface[1], b.network_interface[1])
    link = next(iter(sim.network.links.values()))
    return sim, a, b, link


def link_nested(
    bw: int,
    s1: int, s2: int, s3: int, s4: int,
    n1: bool, n2: bool, n3: bool,
    acc1: bool, acc2: bool, acc3: bool, acc4: bool,
    tick_between: bool,
    ex: int,
    exs: int,
):
    """Two top-level sends A->B; during delivery of a frame the receiver may send a reply (and the reply's receiver
    a reply to that) before returning. current_load and the data actually carried never exceed the bandwidth."""
    assume(all_of(bw > 0, s1 >= 0, s2 >= 0, s3 >= 0, s4 >= 0, ex >= 0, exs >= 0))
    with concrete():
        sim, a, b, link = _two_hosts()
        na, nb = a.network_interface[1], b.network_interface[1]
    link.bandwidth = bw
    st = {"carried": 0, "max_over": False}

    def after(idle=False):
        check(link.current_load <= link.bandwidth, "link.current_load exceeds link.bandwidth")
        check(st["carried"] <= link.bandwidth, "data carried in this tick exceeds the bandwidth")
        if idle:  # nothing in flight: the load is exactly what was carried (sizes as transmitted)
            check(link.current_load == st["carried"], "link.current_load differs from the data carried in this tick")

    # plan: frame1 (s1) from A; on delivery, if n1: B replies s2 (nested); on delivery of s2, if n2: A replies s3.
    def recv_b(frame):
        check(link.is_up, "frame delivered over a link that is not up")
        size_on_wire = frame.size_Mbits
        frame.set_received_timestamp()  # the real interfaces stamp the frame before deciding whether to accept it
        if frame is f1 and n1:
            nb.send_frame(f2)
            after()
        if frame is f4 and n3:
            nb.send_frame(f2b)
            after()
        ok = acc1 if frame is f1 else acc4
        if ok:
            st["carried"] = st["carried"] + size_on_wire
        return ok

    def recv_a(frame):
        check(link.is_up, "frame delivered over a link that is not up")
        size_on_wire = frame.size_Mbits
        frame.set_received_timestamp()
        if frame is f2 and n2:
            na.send_frame(f3)
            after()
        ok = acc2 if frame is f2 else acc3
        if ok:
            st["carried"] = st["carried"] + size_on_wire
        return ok

    f1, f2, f3, f4, f2b = FakeFrame(s1, ex, exs), FakeFrame(s2, ex, exs), FakeFrame(s3, ex, exs), FakeFrame(s4, ex, exs), FakeFrame(s2, ex, exs)
    object.__setattr__(nb, "receive_frame", recv_b)
    object.__setattr__(na, "receive_frame", recv_a)
    na.send_frame(f1)
    after(idle=True)
    if tick_between:
        sim.pre_timestep(1)
        check(link.current_load == 0, "load not reset at the start of the tick")
        st["carried"] = 0
        cover("tick")
    na.send_frame(f4)
    after(idle=True)
    cover("done")


def link_gate(ena: bool, enb: bool, s1: int, bw: int, from_a: bool):
    """No frame crosses a link unless both end interfaces are enabled."""
    assume(all_of(bw > 0, s1 >= 0))
    with concrete():
        sim, a, b, link = _two_hosts()
        na, nb = a.network_interface[1], b.network_interface[1]
    link.bandwidth = bw
    if not ena:
        na.disable()
    if not enb:
        nb.disable()
    entered = []
    object.__setattr__(nb, "receive_frame", lambda fr: entered.append("b") or True)
    object.__setattr__(na, "receive_frame", lambda fr: entered.append("a") or True)
    sent = (na if from_a else nb).send_frame(FakeFrame(s1))
    if ena and enb:
        cover("up")
        if s1 <= bw:
            check(len(entered) == 1, "frame within capacity on an up link was not delivered")
    else:
        cover("down")
        check(len(entered) == 0, "a frame crossed a link whose end interface is disabled")
        check(not sent, "send_frame reported success over a down link")
        check(link.current_load == 0, "a down link carries load")


def link_toggle(bw: int, s1: int, s2: int, dis_a: bool, dis_b: bool, ticks: int, reenable_mid_tick: bool, acc1: bool):
    """A link that carried traffic and then loses one or both ends: a down link carries no load, every tick starts
    with zero load whether the link is up or down, and after re-enabling the full per-tick capacity is available."""
    assume(all_of(bw > 0, s1 >= 0, s2 >= 0, rng(ticks, 1, 3)))
    with concrete():
        sim, a, b, link = _two_hosts()
        na, nb = a.network_interface[1], b.network_interface[1]
    link.bandwidth = bw
    f1, f2 = FakeFrame(s1), FakeFrame(s2)
    got = []
    object.__setattr__(nb, "receive_frame", lambda fr: (got.append(fr), acc1 if fr is f1 else True)[1])
    object.__setattr__(na, "receive_frame", lambda fr: True)
    na.send_frame(f1)
    check(link.current_load <= link.bandwidth, "link.current_load exceeds link.bandwidth")
    if dis_a:
        na.disable()
    if dis_b:
        nb.disable()
    if dis_a or dis_b:
        cover("went_down")
        check(not link.is_up, "link reports up although an end interface is disabled")
        # (an earlier version demanded current_load == 0 on a down link; the property does not say that, and zeroing
        # the load there is what let a re-enabled link carry twice its bandwidth in one tick)
        load_down = link.current_load
        check(not na.send_frame(FakeFrame(0)), "send_frame reported success over a down link")
        check(link.current_load == load_down, "a send over a down link changed the link's load")
    t = 0
    for _ in range(pick_int(ticks, 1, 3)):
        t += 1
        sim.pre_timestep(t)
        check(link.current_load == 0, lambda: "the link does not start the tick with zero load" + (" (link down)" if not link.is_up else ""))
        if not reenable_mid_tick or _ > 0:
            pass
        sim.apply_timestep(t)
    # bring the ends back (in the middle of the current tick) and use the link
    if dis_a:
        na.enable()
    if dis_b:
        nb.enable()
    object.__setattr__(nb, "receive_frame", lambda fr: (got.append(fr), True)[1])
    check(link.is_up, "link not up after re-enabling both ends")
    check(link.current_load == 0, "link comes (back) up in a fresh tick with a non-zero load")
    n0 = len(got)
    na.send_frame(f2)
    if s2 <= bw:
        cover("reused")
        check(len(got) == n0 + 1, "a frame within the per-tick bandwidth was dropped on a link that carried nothing this tick")
    check(link.current_load <= link.bandwidth, "link.current_load exceeds link.bandwidth")


def link_same_tick(bw: int, s1: int, s2: int, s3: int, dis_a: bool, dis_b: bool, acc1: bool, exs: int):
    """Within ONE tick: a send, then either/both ends are disabled and enabled again (blue NIC actions, a zero-duration
    power cycle, an access-point reconfiguration), then two more sends. The data carried by the link in the tick stays
    within the bandwidth."""
    assume(all_of(bw > 0, s1 >= 0, s2 >= 0, s3 >= 0, exs >= 0))
    with concrete():
        sim, a, b, link = _two_hosts()
        na, nb = a.network_interface[1], b.network_interface[1]
        sim.pre_timestep(1)
    link.bandwidth = bw
    f1, f2, f3 = FakeFrame(s1, 0, exs), FakeFrame(s2, 0, exs), FakeFrame(s3, 0, exs)
    st = {"carried": 0}

    def recv(fr):
        check(link.is_up, "frame delivered over a link that is not up")
        ok = acc1 if fr is f1 else True
        if ok:
            st["carried"] = st["carried"] + fr.size_Mbits
        return ok

    object.__setattr__(nb, "receive_frame", recv)
    object.__setattr__(na, "receive_frame", recv)
    na.send_frame(f1)
    check(st["carried"] <= link.bandwidth, "data carried in this tick exceeds the bandwidth")
    if dis_a:
        na.disable()
    if dis_b:
        nb.disable()
    if dis_a:
        na.enable()
    if dis_b:
        nb.enable()
    if dis_a or dis_b:
        cover("toggled")
    check(link.is_up, "link not up after re-enabling both ends")
    na.send_frame(f2)
    nb.send_frame(f3)
    check(link.current_load <= link.bandwidth, "link.current_load exceeds link.bandwidth")
    check(
        st["carried"] <= link.bandwidth,
        lambda: "data carried by the link within one tick exceeds its bandwidth" + (" (an end interface was disabled and re-enabled in the tick)" if dis_a or dis_b else ""),
    )
    cover("same_tick_done")


def link_real_frames(bw: float, pings: int, tick_between: bool, warm: bool):
    """REAL frames (ARP and ICMP built, serialised and time-stamped by the real stack) between two real hosts over a
    link whose bandwidth is a solver real of the order of one frame: after every Link.transmit_frame the load is within
    the bandwidth, the data that entered a receiving interface in the tick (size on the wire, i.e. as it arrives) is
    within the bandwidth, and the link's load equals it when idle."""
    import types

    from primaite.simulator.network.protocols import icmp as icmp_proto
    from primaite.simulator.network.transmission import data_link_layer as dll

    # randomness stub: the ICMP identifier is rendered in decimal inside the frame, so its digit count changes the frame size
    icmp_proto.secrets = types.SimpleNamespace(randbits=lambda n: 4660)
    assume(all_of(bw > 0, bw <= 0.02, rng(pings, 1, 2)))
    dll.datetime = _FixedClock
    with concrete():
        sim, a, b, link = _two_hosts()
        na, nb = a.network_interface[1], b.network_interface[1]
        if warm:
            a.ping("192.168.1.3")
        sim.pre_timestep(1)
    link.bandwidth = bw
    st = {"carried": 0.0, "n": 0, "grew": False}
    orig_a, orig_b = na.receive_frame, nb.receive_frame

    def wrap(orig):
        def recv(frame):
            check(link.is_up, "frame delivered over a link that is not up")
            size_on_wire = frame.size_Mbits
            st["carried"] = st["carried"] + size_on_wire
            st["n"] += 1
            check(st["carried"] <= link.bandwidth, lambda: f"data carried in this tick exceeds the bandwidth after {st['n']} real frames")
            r = orig(frame)
            check(link.current_load <= link.bandwidth, "link.current_load exceeds link.bandwidth")
            return r

        return recv

    object.__setattr__(nb, "receive_frame", wrap(orig_b))
    object.__setattr__(na, "receive_frame", wrap(orig_a))
    for i in range(pick_int(pings, 1, 2)):
        a.ping("192.168.1.3", pings=2)
        check(link.current_load <= link.bandwidth, "link.current_load exceeds link.bandwidth")
        check(st["carried"] <= link.bandwidth, "data carried in this tick exceeds the bandwidth")
        check(link.current_load == st["carried"], "link.current_load differs from the data that crossed the link in this tick")
        if tick_between and i == 0:
            sim.apply_timestep(1)
            sim.pre_timestep(2)
            check(link.current_load == 0, "load not reset at the start of the tick")
            st["carried"] = 0.0
            cover("real_tick")
    if st["n"] > 0:
        cover("real_carried")
    if st["n"] == 0:
        cover("real_dropped")
    cover("real_done")


def airspace_capacity(cap: int, s1: int, s2: int, s3: int, nested: bool, tick_between: bool, dis_b: bool, exs: int, rejoin: int):
    """Wireless channel: two real wireless routers share an AirSpace frequency; the data sent on the channel in a tick
    never exceeds its capacity (also when the receiver replies before returning), the load starts every tick at zero
    and a disabled wireless interface receives nothing."""
    from vlib.fixtures import mk_node

    assume(all_of(cap > 0, s1 >= 0, s2 >= 0, s3 >= 0, exs >= 0, rng(rejoin, 0, 3)))
    with concrete():
        quiet()
        chdriver.OPAQUE_SYMBOLIC_FORMAT = True
        sim = new_sim()
        net = sim.network
        ra = mk_node("wireless-router", "wr_a", start_up_duration=0, airspace=net.airspace)
        rb = mk_node("wireless-router", "wr_b", start_up_duration=0, airspace=net.airspace)
        for r, ip in ((ra, "192.168.9.1"), (rb, "192.168.9.2")):
            r.power_on()
            net.add_node(r)
            r.configure_wireless_access_point(ip, "255.255.255.0")
        wa, wb = ra.wireless_access_point, rb.wireless_access_point
        air = net.airspace
        freq = wa.frequency
    air.frequencies[freq.name].data_rate_bps = cap * 1024 * 1024  # capacity in Mbit as a solver integer
    f1, f2, f3 = FakeFrame(s1, 0, exs), FakeFrame(s2, 0, exs), FakeFrame(s3, 0, exs)
    got = []
    st = {"sent": 0}

    def load():
        return air.bandwidth_load.get(freq.frequency_hz, 0)

    def after():
        check(load() <= cap, "wireless channel load exceeds the channel capacity")
        check(st["sent"] <= cap, "the data sent on the wireless channel in this tick exceeds the channel capacity")

    def send(w, f):
        ok = w.send_frame(f)
        if ok:
            st["sent"] = st["sent"] + f.size_Mbits
        return ok

    def recv_b(frame):
        got.append(frame)
        if frame is f1 and nested:
            send(wb, f2)
        return True

    object.__setattr__(wb, "receive_frame", recv_b)
    object.__setattr__(wa, "receive_frame", lambda fr: (got.append(fr), True)[1])
    if dis_b:
        wb.disable()
    sent1 = send(wa, f1)
    after()
    if s1 + exs > cap:
        check(not sent1 and f1 not in got, "a frame larger than the channel capacity was transmitted")
    if dis_b:
        cover("air_disabled")
        check(f1 not in got, "a disabled wireless interface received a frame")
    # an interface leaves and re-joins the channel in the middle of the tick (NIC disable/enable, access-point
    # reconfiguration): the channel's budget for the tick is unchanged
    rj = pick_int(rejoin, 0, 3)
    if rj == 1:
        wb.disable()
        wb.enable()
    elif rj == 2:
        with concrete():
            rb.configure_wireless_access_point("192.168.9.2", "255.255.255.0")
        object.__setattr__(rb.wireless_access_point, "receive_frame", recv_b)
    elif rj == 3:
        wa.disable()
        wa.enable()
    if rj:
        cover("air_rejoin")
        after()
    if tick_between:
        sim.pre_timestep(1)
        check(load() == 0, "wireless channel load not reset at the start of the tick")
        st["sent"] = 0
        cover("air_tick")
    before = load()
    check(before == st["sent"], "the channel load differs from the data sent on the channel in this tick")
    sent3 = send(wa, f3)
    after()
    if before + s3 + exs <= cap:
        check(sent3, "a frame within the remaining channel capacity was dropped")
    else:
        check(not sent3, "a frame overflowing the channel capacity was transmitted")
    cover("air_done")


def switch_flood(bw: int, s1: int, s2: int, pre: int, nested: bool):
    """SwitchPort.send_frame admission on a real switch port: a flood/forward respects the out-link capacity."""
    assume(all_of(bw > 0, s1 >= 0, s2 >= 0, pre >= 0, pre <= bw))
    from vlib.fixtures import mk_node

    with concrete():
        quiet()
        chdriver.OPAQUE_SYMBOLIC_FORMAT = True
        sim = new_sim()
        sw = mk_node("switch", "sw", start_up_duration=0, num_ports=4)
        sw.power_on()
        b = mk_host("computer", "pc_b", "192.168.1.3", start_up_duration=0)
        b.power_on()
        sim.network.add_node(sw)
        sim.network.add_node(b)
        sim.network.connect(sw.network_interface[1], b.network_interface[1])
        link = next(iter(sim.network.links.values()))
        port, nb = sw.network_interface[1], b.network_interface[1]
    link.bandwidth = bw
    link.current_load = pre
    f1, f2 = FakeFrame(s1), FakeFrame(s2)

    def recv_b(frame):
        if frame is f1 and nested:
            nb.send_frame(f2)
            check(link.current_load <= link.bandwidth, "link.current_load exceeds link.bandwidth (nested)")
        return True

    object.__setattr__(nb, "receive_frame", recv_b)
    object.__setattr__(port, "receive_frame", lambda fr: True)
    port.send_frame(f1)
    check(link.current_load <= link.bandwidth, "link.current_load exceeds link.bandwidth after a switch-port send")
    cover("sent")


# ------------------------------------------------------------------------------------------------ Engine T (FP64)
def link_fp_smt():
    """FP64: for every finite load0 in [0,bw], size>=0, bw>0: admitted => load after accounting <= bw; a frame the
    receiver rejects leaves 0 <= load <= bw; not admitted => nothing is transmitted (checked structurally by S)."""
    import z3

    from primaite.simulator.network.hardware.base import Link
    from vlib.py2smt import FP64, Obligations, Rec, Translator, _Intrinsic

    ob = Obligations(timeout_ms=120000)
    load0, size, bw, nested = z3.FP("load0", FP64), z3.FP("size", FP64), z3.FP("bw", FP64), z3.FP("nested", FP64)
    accept = z3.Bool("accept")
    up = z3.Bool("up")
    fin = lambda x: z3.Not(z3.Or(z3.fpIsNaN(x), z3.fpIsInf(x)))
    zero = z3.FPVal(0.0, FP64)
    base = [fin(load0), fin(size), fin(bw), fin(nested), z3.fpGEQ(load0, zero), z3.fpGEQ(size, zero), z3.fpGT(bw, zero), z3.fpLEQ(load0, bw), z3.fpGEQ(nested, zero)]

    # can_transmit_frame
    tr = Translator()
    frame = Rec({"size_Mbits": size}, tag="frame")
    link = Rec({"is_up": up, "current_load": load0, "bandwidth": bw}, tag="link")
    admitted = tr.call_function(Link.can_transmit_frame, [link, frame], {})
    ob.prove("admission == (up and fl(load+size) <= bw)", base, admitted == z3.And(up, z3.fpLEQ(z3.fpAdd(z3.RNE(), load0, size), bw)), {"load0": load0, "size": size, "bw": bw, "up": up})

    # transmit_frame: receiver.receive_frame may add `nested` (already admitted traffic) to the load before returning
    tr2 = Translator()
    link2 = Rec({"is_up": up, "current_load": load0, "bandwidth": bw, "endpoint_a": "A", "endpoint_b": "B"}, tag="link")

    def recv(fr, link2=link2):
        # nested traffic admitted during delivery: load' = fl(load + nested) with fl(load+nested) <= bw (admission)
        link2.fields["current_load"] = z3.fpAdd(z3.RNE(), link2.fields["current_load"], nested)
        return accept

    receiver = Rec({"receive_frame": _Intrinsic("receive_frame", recv)}, tag="nic")
    link2.fields["endpoint_a"] = receiver
    link2.fields["endpoint_b"] = receiver
    sender = Rec({}, tag="sender")
    try:
        tr2.call_function(Link.transmit_frame, [link2, sender, frame], {})
    except Exception as e:
        return {"status": "ERROR", "error": f"transmit_frame not translatable: {type(e).__name__}: {e}"}
    load_after = link2.fields["current_load"]
    adm = z3.fpLEQ(z3.fpAdd(z3.RNE(), load0, size), bw)
    # Contract for the nested traffic: it passed can_transmit_frame against the load that transmit_frame had STORED
    # when it called receive_frame (recovered from the translated code by a probe receiver).
    ob.prove(
        "frame admitted & nested traffic admitted against the stored load => load after transmit_frame in [0,bw]",
        base + [adm, _nested_admitted(z3, load0, size, nested, bw)],
        z3.And(z3.fpLEQ(load_after, bw), z3.fpGEQ(load_after, zero)),
        {"load0": load0, "size": size, "bw": bw, "nested": nested, "accept": accept},
    )
    res = ob.results
    status = "CONFIRMED"
    cex = None
    for r in res:
        if r["status"] == "REFUTED":
            status = "REFUTED"
            cex = r
            break
        if r["status"] != "CONFIRMED":
            status = r["status"] if r["status"] == "ERROR" else "INCONCLUSIVE"
    # translator validation against the real Link on a grid (FakeFrame, real objects)
    validated = _validate_link_fp(tr)
    if isinstance(validated, str):
        return {"status": "ERROR", "error": validated}
    out = {
        "status": status,
        "obligations": len(res),
        "smt_queries": ob.queries,
        "smt_time_s": round(ob.time_s, 3),
        "validated": validated,
        "detail": res,
        "samples": [r.get("assumption_witness", {}) for r in res][:2],
        "cover": ["fp"],
        "translated": tr.translated + tr2.translated,
    }
    if cex is not None:
        m = cex["model"]
        out["cex"] = {"args": {k: m.get(k) for k in ("load0", "size", "bw", "nested", "accept") if k in m}, "kind": "violation", "message": cex["name"]}
    return out


def _nested_admitted(z3, load0, size, nested, bw):
    """The nested frame passed can_transmit_frame against the load that transmit_frame had stored when it called
    receive_frame. That stored value is recovered from the translated code: run the translation once more with a
    probe receiver that records the load it sees."""
    from primaite.simulator.network.hardware.base import Link
    from vlib.py2smt import Rec, Translator, _Intrinsic

    seen = {}
    probe_link = Rec({"is_up": True, "current_load": load0, "bandwidth": bw}, tag="link")

    def recv(fr):
        seen["load"] = probe_link.fields["current_load"]
        return True

    r = Rec({"receive_frame": _Intrinsic("receive_frame", recv)}, tag="nic")
    probe_link.fields["endpoint_a"] = r
    probe_link.fields["endpoint_b"] = r
    Translator().call_function(Link.transmit_frame, [probe_link, Rec({}, tag="sender"), Rec({"size_Mbits": size}, tag="frame")], {})
    return z3.fpLEQ(z3.fpAdd(z3.RNE(), seen["load"], nested), bw)


def _validate_link_fp(tr):
    import random

    with concrete():
        sim, a, b, link = _two_hosts()
    rnd = random.Random(3)
    n = 0
    for _ in range(60):
        bwv = rnd.choice([1.0, 0.001, 100.0, rnd.random() * 10 + 1e-9])
        l0 = rnd.random() * bwv
        sz = rnd.choice([0.0, bwv - l0, (bwv - l0) * 1.0000001, rnd.random() * bwv, bwv * 2])
        link.bandwidth = bwv
        link.current_load = l0
        real = link.can_transmit_frame(FakeFrame(sz))
        exp = (l0 + sz) <= bwv
        if bool(real) != exp:
            return f"translator validation: can_transmit_frame({l0},{sz},{bwv}) real={real} model={exp}"
        n += 1
    return n


def link_fp_replay(load0: float, size: float, bw: float, nested: float = 0.0, accept: bool = True, up: bool = True):
    with concrete():
        sim, a, b, link = _two_hosts()
        na, nb = a.network_interface[1], b.network_interface[1]
    link.bandwidth = bw
    link.current_load = load0
    f1, f2 = FakeFrame(size), FakeFrame(nested)

    def recv_b(frame):
        if frame is f1 and nested > 0:
            nb.send_frame(f2)
        return accept

    object.__setattr__(nb, "receive_frame", recv_b)
    object.__setattr__(na, "receive_frame", lambda fr: True)
    na.send_frame(f1)
    check(0 <= link.current_load <= link.bandwidth, f"load {link.current_load} outside [0,{bw}]")


HARNESSES = {
    "link_nested": {
        "fn": link_nested,
        "quick": [{"fixed": {}, "timeout": 240}],
        "thorough": [{"fixed": {"tick_between": t, "n1": n}, "timeout": 900} for t in (False, True) for n in (False, True)],
        "cover": ["done", "tick"],
        "bounds": "2 top-level sends, each with an optional nested reply, the first reply with an optional nested reply (depth 2); "
        "sizes/bandwidth arbitrary non-negative reals; accept/reject of every delivery solver-chosen; optional tick in between",
    },
    "link_gate": {
        "fn": link_gate,
        "quick": [{"fixed": {}, "timeout": 120}],
        "thorough": [{"fixed": {}, "timeout": 300}],
        "cover": ["up", "down"],
        "bounds": "all 4 enabled/disabled combinations, either direction, arbitrary size/bandwidth",
    },
    "link_toggle": {
        "fn": link_toggle,
        "quick": [{"fixed": {}, "timeout": 200}],
        "thorough": [{"fixed": {}, "timeout": 400}],
        "cover": ["went_down", "reused"],
        "bounds": "one send, then either/both/no end disabled, 1-3 ticks, re-enable, one more send; sizes/bandwidth unbounded solver integers",
    },
    "link_same_tick": {
        "fn": link_same_tick,
        "quick": [{"fixed": {}, "timeout": 200}],
        "thorough": [{"fixed": {}, "timeout": 400}],
        "cover": ["toggled", "same_tick_done"],
        "bounds": "one tick: a send, disable+enable of either/both/no end, two more sends (one per direction); sizes, sent-stamp growth and bandwidth unbounded solver integers; first delivery accepted or rejected",
    },
    "link_real_frames": {
        "fn": link_real_frames,
        "quick": [{"fixed": {"warm": w}, "timeout": 200} for w in (False, True)],
        "thorough": [{"fixed": {"warm": w, "tick_between": t}, "timeout": 400} for w in (False, True) for t in (False, True)],
        "cover": ["real_done", "real_carried", "real_dropped"],
        "bounds": "real ARP/ICMP frames of 1-2 ping calls (2 echo requests each, cold or warm ARP cache), optional tick in between; bandwidth any real in (0, 0.02] Mbit (frames are ~0.003 Mbit)",
    },
    "airspace_capacity": {
        "fn": airspace_capacity,
        "quick": [{"fixed": {}, "timeout": 200}],
        "thorough": [{"fixed": {}, "timeout": 400}],
        "cover": ["air_done", "air_tick", "air_disabled", "air_rejoin"],
        "bounds": "two wireless routers on one frequency, 2 top-level sends with an optional nested reply, optional tick in between, receiver enabled/disabled, an interface optionally leaving and re-joining the channel mid-tick (disable/enable of either side, access-point reconfiguration); sizes and capacity unbounded solver integers",
    },
    "switch_flood": {
        "fn": switch_flood,
        "quick": [{"fixed": {}, "timeout": 120}],
        "thorough": [{"fixed": {}, "timeout": 300}],
        "cover": ["sent"],
        "bounds": "one switch-port send with arbitrary pre-load in [0,bw] and an optional nested reply",
    },
    "link_fp_smt": {
        "fn": link_fp_smt,
        "replay_fn": link_fp_replay,
        "kind": "smt",
        "quick": [{"fixed": {}, "timeout": 300}],
        "thorough": [{"fixed": {}, "timeout": 300}],
        "cover": ["fp"],
        "bounds": "all finite IEEE doubles load0 in [0,bw], size>=0, bw>0, nested>=0",
    },
}

"""C19 – scripted green/red agents act only when and how their settings allow (Engine S on the real agent classes).

Randomness is a solver variable: the `random` module object seen by the agent modules, `primaite.game.science.random`
and the numpy Generator held by a ProbabilisticAgent are replaced by stubs that hand out pre-allocated symbolic harness
parameters constrained only by the library contract (randint: a<=r<=b; choice: an index into the sequence;
random(): 0<=r<1; Generator.choice(n, p): an index i<n with p[i]>0).
"""
from __future__ import annotations

from vlib.chdriver import HarnessError, all_of, assume, check, cover, fail, pick, rng
from vlib.fixtures import concrete, quiet

_SA = "/repo/src/primaite/game/agent/scripted_agents/"
SOURCES = [
    _SA + "random_agent.py",
    _SA + "data_manipulation_bot.py",
    _SA + "probabilistic_agent.py",
    _SA + "abstract_tap.py",
    _SA + "TAP001.py",
    _SA + "TAP003.py",
    "/repo/src/primaite/game/science.py",
]
ENCODED = [
    "primaite.game.agent.scripted_agents.random_agent.PeriodicAgent.__init__/_set_next_execution_timestep/get_action/start_node",
    "primaite.game.agent.scripted_agents.data_manipulation_bot.DataManipulationAgent.__init__/get_action",
]
ASSUMPTIONS = [
    "random.randint / random.choice / random.random / numpy Generator.choice are stubs returning pre-allocated solver "
    "values constrained only by the library contract (a<=r<=b; an element of the sequence; an index i<n with p[i]>0; "
    "ValueError for an empty range / mismatched p as the library does); random() is 0.25 or 0.75 by a solver boolean",
    "AgentLog (file logger) construction and methods are no-ops; log text never feeds behaviour",
    "periodic agents: settings objects are built concretely and their integer fields overwritten with solver integers "
    "before the agent is constructed around them (pydantic passes model instances through unvalidated); the schema "
    "contract is assumed instead: 0<=variance<frequency, start_variance>=0, max_executions>=0, and "
    "start_step-start_variance>=0 (a first scheduled step below 0 is never reached: the agent then never acts)",
]


# ------------------------------------------------------------------------------------------------ randomness stubs
class _Rand:
    """Stand-in for the `random` module / `random.random` seen by the code under test."""

    def __init__(self, ints=(), idxs=(), reals=()):
        self.ints, self.idxs, self.reals = list(ints), list(idxs), list(reals)
        self.ni = self.nx = self.nr = 0
        self.log = []  # (kind, value) in call order

    def randint(self, a, b):
        if a > b:
            raise ValueError("empty range for randrange()")
        if self.ni >= len(self.ints):
            raise HarnessError("harness allocated too few randint draws")
        r = self.ints[self.ni]
        self.ni += 1
        assume(all_of(a <= r, r <= b))
        self.log.append(("randint", r))
        return r

    def choice(self, seq):
        if len(seq) == 0:
            raise IndexError("Cannot choose from an empty sequence")
        if self.nx >= len(self.idxs):
            raise HarnessError("harness allocated too few choice draws")
        i = self.idxs[self.nx]
        self.nx += 1
        self.log.append(("choice", i))
        return pick(list(seq), i)

    def random(self):
        """0.25 / 0.75 chosen by a (solver) boolean: against a probability in {0, 0.5, 1} every comparison random()<p
        has exactly the outcomes it has for arbitrary r in [0,1)."""
        if self.nr >= len(self.reals):
            raise HarnessError("harness allocated too few random() draws")
        b = self.reals[self.nr]
        self.nr += 1
        r = 0.25 if b else 0.75
        self.log.append(("random", r))
        return r

    __call__ = random  # primaite.game.science does `from random import random`


_quiet_done = False


def _quiet():
    global _quiet_done
    quiet()
    if _quiet_done:
        return
    _quiet_done = True
    from primaite.game.agent.agent_log import AgentLog

    def _no_logger(self):
        self.logger = None

    AgentLog.setup_logger = _no_logger
    for name in ("debug", "info", "warning", "error", "critical"):
        setattr(AgentLog, name, lambda self, *a, **k: None)


# ------------------------------------------------------------------------------------------------ S1 periodic agents
PERIODIC_KINDS = {"periodic-agent": "generic-app", "red-database-corrupting-agent": "data-manipulation-bot"}
NODES = ["client_1", "client_2", "client_3"]


def _periodic_cls(kind: str):
    import primaite.game.agent.scripted_agents.data_manipulation_bot as DM
    import primaite.game.agent.scripted_agents.random_agent as RA

    return (RA.PeriodicAgent if kind == "periodic-agent" else DM.DataManipulationAgent), RA


def _mk_periodic(kind, rand, n_nodes, start_step, start_variance, frequency, variance, max_exec):
    """Real constructor of the agent class around a settings object holding solver integers."""
    cls, RA = _periodic_cls(kind)
    with concrete():
        _quiet()
        kw = dict(possible_start_nodes=NODES[:n_nodes])
        if kind == "periodic-agent":
            kw["target_application"] = PERIODIC_KINDS[kind]
        st = cls.AgentSettingsSchema(**kw)
    st.start_step = start_step
    st.start_variance = start_variance
    st.frequency = frequency
    st.variance = variance
    st.max_executions = max_exec
    RA.random = rand
    agent = cls(config={"type": kind, "ref": "agent_under_test", "team": "RED", "agent_settings": st})
    check(agent.config.agent_settings is st, "harness: settings object was copied by the constructor")
    return agent


def _check_periodic_action(kind, act, n_nodes):
    name, params = act
    check(name == "node-application-execute", lambda: f"agent used an action it is not configured to use: {name}")
    check(set(params.keys()) == {"node_name", "application_name"}, "unexpected action parameters")
    check(params["node_name"] in NODES[:n_nodes], lambda: f"acted from {params['node_name']}, not a configured start node")
    check(params["application_name"] == PERIODIC_KINDS[kind], "executed an application other than the configured one")


def periodic_run(
    start_step: int, start_variance: int, frequency: int, variance: int, max_exec: int, c0: int,
    d0: int, d1: int, d2: int, d3: int, d4: int, d5: int, d6: int, d7: int, d8: int, d9: int, d10: int, d11: int,
    d12: int, d13: int,
    T: int = 8, kind: str = "periodic-agent", n_nodes: int = 2,
):  # fmt: skip
    """T steps from the real initial state: when the agent acts, from where and with what."""
    assume(all_of(start_variance >= 0, start_step - start_variance >= 0, variance >= 0, variance < frequency, max_exec >= 0))
    rand = _Rand(ints=[d0, d1, d2, d3, d4, d5, d6, d7, d8, d9, d10, d11, d12, d13][: T + 2], idxs=[c0])
    agent = _mk_periodic(kind, rand, n_nodes, start_step, start_variance, frequency, variance, max_exec)
    times = []
    node = None
    for t in range(T):
        act = agent.get_action(None, t)
        if act[0] == "do-nothing":
            check(act[1] == {}, "do-nothing with parameters")
            continue
        _check_periodic_action(kind, act, n_nodes)
        if node is None:
            node = act[1]["node_name"]
        check(act[1]["node_name"] == node, "start node changed within the episode")
        if not times:
            cover("first_action")
            check(t >= start_step - start_variance, lambda: f"acted at step {t}, before start_step-start_variance")
            check(t <= start_step + start_variance, lambda: f"first action at step {t}, after start_step+start_variance")
        else:
            cover("second_action")
            gap = t - times[-1]
            check(gap >= frequency - variance, lambda: f"gap {gap} between actions is below frequency-variance")
            check(gap <= frequency + variance, lambda: f"gap {gap} between actions is above frequency+variance")
        times.append(t)
        check(len(times) <= max_exec, lambda: f"action number {len(times)} exceeds max_executions")
    # bounded liveness (so that 'never acts' is not a way to pass): a closed window must contain its action
    if not times:
        cover("no_action")
        if max_exec >= 1:
            check(T - 1 < start_step + start_variance, "start window closed without an action")
    elif len(times) < max_exec:
        check(T - 1 < times[-1] + frequency + variance, "frequency window closed without the next action")
    else:
        cover("budget_used")


def periodic_step(
    t: int, nxt: int, k: int, start_step: int, start_variance: int, frequency: int, variance: int, max_exec: int,
    c0: int, d0: int, d1: int, d2: int, kind: str = "periodic-agent", n_nodes: int = 3,
):  # fmt: skip
    """Inductive step from an arbitrary pre-state (timestep t, next_execution_timestep nxt >= t, k executions so far)."""
    assume(all_of(start_variance >= 0, start_step - start_variance >= 0, variance >= 0, variance < frequency,
                  max_exec >= 0, t >= 0, nxt >= t, k >= 0))  # fmt: skip
    rand = _Rand(ints=[d0, d1, d2], idxs=[c0])
    agent = _mk_periodic(kind, rand, n_nodes, start_step, start_variance, frequency, variance, max_exec)
    agent.next_execution_timestep = nxt
    agent.num_executions = k
    act = agent.get_action(None, t)
    if act[0] == "do-nothing":
        cover("idle")
        check(not all_of(t == nxt, k < max_exec), "scheduled step with executions left, but the agent did nothing")
        check(agent.next_execution_timestep == nxt, "schedule changed without an action")
    else:
        cover("acted")
        _check_periodic_action(kind, act, n_nodes)
        check(t == nxt, "acted at a step other than the scheduled one")
        check(k < max_exec, "acted although max_executions was already reached")
        n2 = agent.next_execution_timestep
        check(all_of(n2 - t >= frequency - variance, n2 - t <= frequency + variance), "next scheduled step outside frequency+-variance")
        check(n2 > t, "invariant: next scheduled step is not in the future")


HARNESSES = {
    "periodic_run": {
        "fn": periodic_run,
        "quick": [{"fixed": {"T": 7, "kind": k, "n_nodes": 2}, "timeout": 200} for k in PERIODIC_KINDS],
        "thorough": [{"fixed": {"T": 11, "kind": k, "n_nodes": 3}, "timeout": 1500} for k in PERIODIC_KINDS],
        "cover": ["first_action", "second_action", "no_action", "budget_used"],
        "bounds": {
            "quick": "T=7 steps from construction; start_step/start_variance/frequency/variance/max_executions unbounded "
            "solver integers under the schema contract; 2 start nodes; both periodic agent classes",
            "thorough": "T=11, 3 start nodes",
        },
    },
    "periodic_step": {
        "fn": periodic_step,
        "quick": [{"fixed": {"kind": k, "n_nodes": 3}, "timeout": 120} for k in PERIODIC_KINDS],
        "thorough": [{"fixed": {"kind": k, "n_nodes": 3}, "timeout": 120} for k in PERIODIC_KINDS],
        "cover": ["idle", "acted"],
        "bounds": "one get_action from an arbitrary pre-state (t, next_execution_timestep>=t, num_executions>=0), all "
        "settings unbounded solver integers under the schema contract",
    },
}


# ------------------------------------------------------------------------------------------------ S2 probabilistic agent
class _Gen:
    """Stand-in for numpy.random.Generator: choice(n, p=...) returns a solver-chosen index i<n with p[i]>0."""

    def __init__(self, idxs):
        self.idxs = list(idxs)
        self.n = 0
        self.seen_p = []

    def choice(self, a, p=None):
        if self.n >= len(self.idxs):
            raise HarnessError("harness allocated too few Generator.choice draws")
        with concrete():
            pv = [float(x) for x in p]
            if len(pv) != a:
                raise ValueError("'a' and 'p' must have same size")
            if any(x < 0 for x in pv):
                raise ValueError("probabilities are not non-negative")
            if abs(sum(pv) - 1.0) > 1e-8:
                raise ValueError("probabilities do not sum to 1")
        i = self.idxs[self.n]
        self.n += 1
        self.seen_p.append(pv)
        assume(rng(i, 0, a - 1))
        for j in range(a):
            if i == j:
                assume(pv[j] > 0)
                return j
        raise HarnessError("unreachable")


def _perms(n):
    import itertools

    return [list(p) for p in itertools.permutations(range(n))]


def _tables(n):
    """Every probability vector of length n with entries in {0, 1/4, 1/2, 3/4, 1} summing to 1."""
    import itertools

    return [list(v) for v in itertools.product([0.0, 0.25, 0.5, 0.75, 1.0], repeat=n) if abs(sum(v) - 1.0) < 1e-9]


_PA_ACTIONS = [
    {"action": "do-nothing", "options": {}},
    {"action": "node-application-execute", "options": {"node_name": "client_1", "application_name": "web-browser"}},
    {"action": "node-file-delete", "options": {"node_name": "client_1", "folder_name": "downloads", "file_name": "cat.png"}},
    {"action": "node-application-execute", "options": {"node_name": "client_2", "application_name": "database-client"}},
]


def probabilistic(order: int, map_order: int, table: int, i0: int, i1: int, n: int = 3):
    """An action whose configured probability is 0 is never selected, whatever order the mapping keys were written in."""
    from primaite.game.agent.scripted_agents.probabilistic_agent import ProbabilisticAgent

    with concrete():
        _quiet()
        perms, tables = _perms(n), _tables(n)
    key_order = pick(perms, order)  # order in which the keys of action_probabilities appear in the scenario file
    amap_order = pick(perms, map_order)  # same for action_map
    probs = pick(tables, table)
    with concrete():
        configured = {k: probs[k] for k in key_order}
        cfg = {
            "type": "probabilistic-agent",
            "ref": "agent_under_test",
            "team": "GREEN",
            "action_space": {"action_map": {k: _PA_ACTIONS[k] for k in amap_order}},
            "agent_settings": {"action_probabilities": configured},
        }
        agent = ProbabilisticAgent.from_config(config=cfg)
        gen = _Gen([i0, i1])
        agent.rng = gen
    for _ in range(2):
        name, opts = agent.get_action(None, 0)
        sel = [k for k in range(n) if _PA_ACTIONS[k]["action"] == name and _PA_ACTIONS[k]["options"] == opts]
        check(len(sel) == 1, "selected an action that is not in the action map")
        check(configured[sel[0]] > 0, lambda: f"selected action {sel[0]} whose configured probability is 0 (keys written in order {key_order})")
        if key_order != sorted(key_order):
            cover("keys_out_of_order")
        if 0.0 in probs:
            cover("has_zero")
    cover("selected")


ENCODED += ["primaite.game.agent.scripted_agents.probabilistic_agent.ProbabilisticAgent.probabilities/get_action (+ ActionManager.get_action)"]
ASSUMPTIONS += [
    "probabilistic agent: probability tables range over every vector with entries in {0,1/4,1/2,3/4,1} summing to 1, "
    "written with the mapping keys in every order; the agent is constructed through from_config (full validation)",
]
HARNESSES["probabilistic"] = {
    "fn": probabilistic,
    "quick": [{"fixed": {"n": 3, "order": o}, "timeout": 200} for o in range(6)],
    "thorough": [{"fixed": {"n": 4, "order": o}, "timeout": 900} for o in range(24)],
    "cover": ["selected", "keys_out_of_order", "has_zero"],
    "bounds": {
        "quick": "3 actions: all 6 key orders x 6 action_map orders x 15 probability tables x 2 consecutive draws",
        "thorough": "4 actions: all 24 key orders x 24 action_map orders x 35 tables x 2 draws",
    },
}


# ------------------------------------------------------------------------------------------------ S3 threat actors
# Reference data written from the kill-chain tables in the UC7-TAP003 / UC7-TAP001 notebooks (stage order and the
# actions each stage uses) and the agent_settings tables there (start_step, frequency, variance, repeat_kill_chain,
# repeat_kill_chain_stages, default_starting_node / starting_nodes, per-stage `probability`).
TAPS = {
    "tap-003": {
        "yaml": "TAP003.yaml",
        "stages": ["RECONNAISSANCE", "PLANNING", "ACCESS", "MANIPULATION", "EXPLOIT"],
        "prob_stages": ["PLANNING", "ACCESS", "MANIPULATION", "EXPLOIT"],
        "actions": {
            "RECONNAISSANCE": [],
            "PLANNING": [],
            "ACCESS": [],
            "MANIPULATION": ["node-session-remote-login", "node-send-remote-command", "node-account-change-password"],
            "EXPLOIT": ["node-session-remote-login", "node-send-remote-command"],
        },
        "remote_stages": [],
        "start_nodes": ["ST_PROJ-B-PRV-PC-2", "ST_PROJ-C-PRV-PC-3"],  # not the default_starting_node
    },
    "tap-001": {
        "yaml": "TAP001_PC1.yaml",
        "stages": ["DOWNLOAD", "INSTALL", "ACTIVATE", "PROPAGATE", "COMMAND_AND_CONTROL", "PAYLOAD"],
        "prob_stages": ["ACTIVATE", "PROPAGATE", "COMMAND_AND_CONTROL", "PAYLOAD"],
        # TAP001's code deliberately applies no probability to ACTIVATE ("No Probability on Activate"), although the
        # settings schema carries one; the property statement does not speak about stage probabilities, so that stage
        # is not demanded to honour a zero probability here (main session's decision; see DESIGN.md section 8)
        "zero_stages": ["PROPAGATE", "COMMAND_AND_CONTROL", "PAYLOAD"],
        "actions": {
            "DOWNLOAD": ["node-folder-create", "node-file-create"],
            "INSTALL": ["node-file-access"],
            "ACTIVATE": ["node-application-install"],
            "PROPAGATE": ["node-nmap-ping-scan", "node-nmap-port-scan", "node-network-service-recon"],
            "COMMAND_AND_CONTROL": ["node-application-install", "configure-c2-beacon", "node-application-execute"],
            "PAYLOAD": ["c2-server-ransomware-configure", "c2-server-data-exfiltrate", "c2-server-ransomware-launch"],
        },
        "remote_stages": ["PAYLOAD"],  # payload actions are requests to the configured C2 server node
        "start_nodes": ["ST_PROJ-A-PRV-PC-1", "ST_PROJ-B-PRV-PC-2"],  # not the default_starting_node
    },
}
_T_IP, _O_IP, _O2_IP = "192.168.220.3", "192.168.230.2", "192.168.220.2"
_NETS = ["192.168.230.0/29", "192.168.220.0/29"]
SCAN_MENU = {
    "node-nmap-ping-scan": [{"live_hosts": []}, {"live_hosts": [_O_IP]}, {"live_hosts": [_O2_IP, _T_IP]}, {"live_hosts": [_T_IP]}],
    "node-network-service-recon": [{}, {_O_IP: {"tcp": [5432]}}, {_T_IP: {"tcp": [5432]}}, {_O_IP: {"tcp": [5432]}, _O2_IP: {"tcp": [5432]}}],
    "node-nmap-port-scan": [{}, {_T_IP: {"tcp": [5432]}}, {_T_IP: {"tcp": [80]}}, {_T_IP: {"udp": [5432]}}],
}


def _tap_modules(kind):
    import primaite.game.agent.scripted_agents.abstract_tap as AT
    import primaite.game.agent.scripted_agents.TAP001 as T1
    import primaite.game.agent.scripted_agents.TAP003 as T3
    import primaite.game.science as SC

    return (T3.TAP003 if kind == "tap-003" else T1.TAP001), [AT, T1, T3], SC


def _tap_settings(kind, n_nodes, n_acc, n_acl):
    """agent_settings of the shipped example (uc7_multiple_attack_variants), trimmed to n_acc account changes, n_acl
    malicious ACLs and two network addresses; unit timing, every stage probability 0.5."""
    import copy
    import os

    import primaite
    import yaml

    path = os.path.join(os.path.dirname(primaite.__file__), "config", "_package_data", "uc7_multiple_attack_variants", TAPS[kind]["yaml"])
    st = copy.deepcopy(yaml.safe_load(open(path))["red"][0]["agent_settings"])
    st.update(start_step=1, frequency=1, variance=0, starting_nodes=TAPS[kind]["start_nodes"][:n_nodes])
    kc = st["kill_chain"]
    if kind == "tap-003":
        kc["MANIPULATION"]["account_changes"] = kc["MANIPULATION"]["account_changes"][:n_acc]
        kc["EXPLOIT"]["malicious_acls"] = kc["EXPLOIT"]["malicious_acls"][:n_acl]
    else:
        kc["PROPAGATE"]["network_addresses"] = list(_NETS)
        kc["PROPAGATE"]["scan_attempts"] = 6
    for s in TAPS[kind]["prob_stages"]:
        kc[s]["probability"] = 0.5
    return st


class _Snap:
    def __init__(self, agent):
        self.stage = agent.current_kill_chain_stage.name
        self.progress = agent.current_stage_progress.name
        self.next = agent.next_execution_timestep
        self.concluded = agent.actions_concluded


def _happy_response(act):
    """Scripted environment of the concrete prefix: every request succeeds, the scans find the target in the 2nd net."""
    name, p = act
    if name == "node-nmap-ping-scan":
        return {"live_hosts": [_O_IP]} if str(p["target_ip_address"]).startswith("192.168.230") else {"live_hosts": [_O2_IP, _T_IP]}
    if name == "node-nmap-port-scan":
        return {_T_IP: {"tcp": [5432]}}
    if name == "node-session-remote-login":
        return {"ip_address": p["remote_ip"], "username": p["username"]}
    return {}


STATUSES = ["success", "failure", "unreachable"]  # what RequestManager / request handlers answer


def _feed(agent, t, act, status, data):
    """What PrimaiteGame.apply_agent_actions does after the request was answered."""
    from primaite.interface.request import RequestResponse

    with concrete():
        req = agent.format_request(act[0], act[1])
        resp = RequestResponse(status=status, data=data if status == "success" else {"reason": "refused"})
        agent.process_action_response(timestep=t, action=act[0], parameters=act[1], request=req, response=resp, observation=None)


def _tap_check_step(kind, agent, t, pre, post, act, prev_act, prev_ok, rkc, rks, frequency, variance, allowed_nodes, st):
    spec = TAPS[kind]
    stages = spec["stages"]
    L = len(stages)
    first = stages[0]
    rank = {"NOT_STARTED": 0, "SUCCEEDED": L + 1}
    for i, s in enumerate(stages):
        rank[s] = i + 1
    executing = all_of(t >= pre.next, not pre.concluded)
    idle = act[0] == "do-nothing"
    if idle:
        check(act[1] == {}, "do-nothing with parameters")
    changed = pre.stage != post.stage or pre.progress != post.progress
    if not executing:
        cover("bypass")
        check(idle, lambda: f"step {t}: acted ({act[0]}) before the next permitted step / after concluding")
        check(not changed, lambda: f"step {t}: kill-chain position changed ({pre.stage}->{post.stage}) outside a permitted step")
        check(post.next == pre.next, "schedule changed outside a permitted step")
        check(post.concluded == pre.concluded, "actions_concluded changed outside a permitted step")
        return False
    cover("execute")
    gap = post.next - t
    check(all_of(gap >= frequency - variance, gap <= frequency + variance), lambda: f"step {t}: next permitted step is {gap} ahead, outside frequency+-variance")
    # ---- stage order
    a, b = pre.stage, post.stage
    check(a in rank or a == "FAILED", lambda: f"kill-chain stage {a} is not part of this agent's kill chain")
    check(b in rank or b == "FAILED", lambda: f"kill-chain stage {b} is not part of this agent's kill chain")
    restart = b in ("NOT_STARTED", first)
    if a == b:
        pass
    elif a == "NOT_STARTED":
        check(b == first, lambda: f"kill chain started at {b}, not at its first stage")
        cover("started")
    elif a in ("SUCCEEDED", "FAILED"):
        if a == "SUCCEEDED" and b == "FAILED":
            check(all_of(not rks, not prev_ok), "SUCCEEDED turned into FAILED without a refused final action / with stage repetition on")
        else:
            check(restart, lambda: f"finished kill chain ({a}) moved to {b}")
            check(rkc, lambda: f"kill chain restarted from {a} although repeat_kill_chain is off")
            cover("restarted")
    elif b == "FAILED":
        check(not rks, lambda: f"stage {a} -> FAILED although repeat_kill_chain_stages is on")
        cover("failed")
    elif rank[b] == rank[a] + 1:
        exempt = kind == "tap-001" and a == "PAYLOAD" and st["kill_chain"]["PAYLOAD"]["continue_on_failed_exfil"]
        if not exempt:
            check(prev_ok, lambda: f"advanced {a} -> {b} although the previous action ({prev_act[0]}) was refused")
        cover("advanced")
        if b == "SUCCEEDED":
            cover("succeeded")
    elif restart:
        check(all_of(rkc, not rks), lambda: f"stage {a} -> {b} (restart) not allowed by the repeat settings")
    else:
        fail(f"kill-chain stage moved {a} -> {b}: out of order")
    if a in ("SUCCEEDED", "FAILED") and not rkc:
        check(idle, lambda: f"acted ({act[0]}) after the kill chain ended with repeat_kill_chain off")
        check(b in ("SUCCEEDED", "FAILED"), "left the final state with repeat_kill_chain off")
        check(post.concluded, "kill chain ended with repeat_kill_chain off but the agent did not conclude")
    # ---- how: actions of the stage being attempted, from the chosen start node
    if not idle:
        cover("acted")
        repeat = all_of(not prev_ok, act[0] == prev_act[0], act[1] == prev_act[1])
        if not repeat or a not in spec["actions"]:
            # (a refused action may be retried, but only while its stage is still being attempted: once the chain has
            # failed and gone back to NOT_STARTED, or has ended, re-issuing the old action is acting outside the chain)
            check(a in spec["actions"] and act[0] in spec["actions"][a], lambda: f"action {act[0]} emitted while attempting stage {a}")
        else:
            cover("retried")
        node = act[1].get("node_name", act[1].get("source_node"))
        if any(act[0] in spec["actions"][s] for s in spec["remote_stages"]):
            check(node == st["kill_chain"]["COMMAND_AND_CONTROL"]["c2_server_name"], "payload action not addressed to the configured C2 server")
        else:
            check(node == agent.starting_node, lambda: f"action {act[0]} issued from {node}, not from the chosen start node")
            check(node in allowed_nodes, lambda: f"start node {node} is not one of the configured start nodes")
    return True


def tap_run(
    start_step: int, frequency: int, variance: int, nxt: int, rkc: bool, rks: bool, c0: int, c1: int,
    d0: int, d1: int, d2: int, d3: int, d4: int, d5: int, d6: int, d7: int, d8: int, d9: int, d10: int, d11: int,
    d12: int, d13: int, d14: int, d15: int, d16: int, d17: int, d18: int, d19: int, d20: int, d21: int,
    ok0: int, ok1: int, ok2: int, ok3: int, ok4: int, ok5: int, ok6: int, ok7: int, ok8: int, ok9: int,
    b0: bool, b1: bool, b2: bool, b3: bool, b4: bool, b5: bool, b6: bool, b7: bool, b8: bool, b9: bool,
    s0: int, s1: int, s2: int, s3: int, s4: int, s5: int, s6: int, s7: int, s8: int, s9: int,
    T: int = 5, prefix: int = 0, kind: str = "tap-003", n_nodes: int = 0, n_acc: int = 1, n_acl: int = 1, unit: bool = False,
):  # fmt: skip
    """`prefix` steps of the undisturbed kill chain run concretely (unit timing, every request granted, every trial won);
    then T steps with solver-chosen timing settings, draws, trial outcomes, refusals (blue interference) and scan results.
    prefix=0: the real constructor runs with the solver-chosen settings (real initial state)."""
    cls, mods, SC = _tap_modules(kind)
    if unit:
        assume(all_of(start_step == 1, frequency == 1, variance == 0))
    else:
        assume(all_of(variance >= 0, frequency >= 0, start_step - variance >= 1))
    with concrete():
        _quiet()
        st = _tap_settings(kind, n_nodes, n_acc, n_acl)
        allowed_nodes = st["starting_nodes"] or [st["default_starting_node"]]
        sobj = cls.AgentSettingsSchema(**st)
    rand = _Rand(ints=[0] * 60, idxs=[0, 0], reals=[True] * 60)
    for m in mods:
        m.random = rand
    SC.random = rand
    if T > 10:
        raise HarnessError("tap_run allocates draws for at most 10 symbolic steps")
    oks = [ok0, ok1, ok2, ok3, ok4, ok5, ok6, ok7, ok8, ok9]
    bs = [b0, b1, b2, b3, b4, b5, b6, b7, b8, b9]
    ss = [s0, s1, s2, s3, s4, s5, s6, s7, s8, s9]
    sym_ints = [d0, d1, d2, d3, d4, d5, d6, d7, d8, d9, d10, d11, d12, d13, d14, d15, d16, d17, d18, d19, d20, d21]

    def go_symbolic():
        rand.ints, rand.ni = list(sym_ints), 0
        rand.idxs, rand.nx = [c0, c1], 0
        rand.reals, rand.nr = bs + bs, 0
        sobj.start_step, sobj.frequency, sobj.variance = start_step, frequency, variance
        sobj.repeat_kill_chain, sobj.repeat_kill_chain_stages = rkc, rks

    if prefix == 0:
        go_symbolic()
    cfg = {"type": kind, "ref": "attacker", "team": "RED", "agent_settings": sobj}
    if prefix == 0:
        agent = cls(config=cfg)
    else:
        with concrete():
            agent = cls(config=cfg)
    check(agent.config.agent_settings is sobj, "harness: settings object was copied by the constructor")
    check(agent.starting_node in allowed_nodes, "chosen start node is not one of the configured start nodes")
    check(agent.current_kill_chain_stage.name == "NOT_STARTED", "kill chain not in NOT_STARTED after construction")
    prev_act, prev_ok = ("do-nothing", {}), True  # the action of the last permitted step and whether it was granted
    pending = None  # (t, act) emitted and not yet answered
    pending_exec = False
    started = False
    last_active = None
    for t in range(prefix + T):
        symbolic = t >= prefix
        i = t - prefix
        if t == prefix and prefix > 0:
            go_symbolic()
            # arbitrary schedule state satisfying the invariant: next permitted step within frequency+-variance of the last
            assume(all_of(nxt - agent.current_timestep >= frequency - variance, nxt - agent.current_timestep <= frequency + variance))
            agent.next_execution_timestep = nxt
        if pending is not None:
            pt, pact = pending
            if not symbolic or pact[0] == "do-nothing":
                status, data = "success", _happy_response(pact) if not symbolic else {}
            else:
                status = pick(STATUSES, oks[i])
                data = _happy_response(pact)
                if status == "success" and pact[0] in SCAN_MENU:
                    data = pick(SCAN_MENU[pact[0]], ss[i])
            _feed(agent, pt, pact, status, data)
            if pending_exec:
                prev_act, prev_ok = pact, status == "success"
        if symbolic:
            pre = _Snap(agent)
            act = agent.get_action(None, t)
            post = _Snap(agent)
            pending_exec = _tap_check_step(kind, agent, t, pre, post, act, prev_act, prev_ok, rkc, rks, frequency, variance, allowed_nodes, st)
            if prefix == 0:
                # when: nothing before start_step-variance, started by start_step+variance
                if t < start_step - variance:
                    check(not pending_exec, lambda: f"step {t} is before start_step-variance but the agent took its turn")
                started = started or pending_exec
                if t >= start_step + variance:
                    check(started, lambda: f"step {t}: start window closed but the kill chain has not begun")
            if pending_exec or act[0] != "do-nothing":
                if last_active is not None:
                    check(t - last_active >= frequency - variance, lambda: f"turns at steps {last_active} and {t} are closer than frequency-variance")
                last_active = t
        else:
            with concrete():
                pre = _Snap(agent)
                act = agent.get_action(None, t)
                pending_exec = t >= pre.next and not pre.concluded
                if pending_exec:
                    last_active = t
        pending = (t, act)
    cover("end_" + agent.current_kill_chain_stage.name)


ENCODED += [
    "primaite.game.agent.scripted_agents.abstract_tap.AbstractTAP._select_start_node/_set_next_execution_timestep/"
    "_agent_trial_handler/_tap_outcome_handler/_tap_return_handler/_tap_start",
    "primaite.game.agent.scripted_agents.TAP003.TAP003.__init__/setup_agent/get_action/_progress_kill_chain/"
    "_reconnaissance/_planning/_access/_manipulation/_exploit/_handle_login_response/_handle_change_password_response",
    "primaite.game.agent.scripted_agents.TAP001.TAP001.__init__/setup_agent/get_action/_progress_kill_chain/_download/"
    "_install/_activate/_propagate/_c2c/_payload/_payload_handler/_scan_* handlers/_update_next_scan_target",
    "primaite.game.science.simulate_trial",
    "primaite.game.agent.interface.AbstractAgent.process_action_response / format_request (concrete)",
]
ASSUMPTIONS += [
    "threat actors: built from the shipped uc7_multiple_attack_variants settings trimmed to n_acc account changes, n_acl "
    "malicious ACLs, two network addresses, scan_attempts 6; every stage probability 0.5 and random() in {0.25,0.75} "
    "(every comparison random()<p has both outcomes, as for any r in [0,1)); tap_prob_zero uses probabilities {0,1}",
    "threat actors: the simulator is replaced by the harness: each emitted action is turned into a request by the real "
    "format_request and answered success / failure / unreachable by a solver value (blue interference), do-nothing always succeeds, a "
    "granted remote login answers {ip_address, username}, a granted scan answers a solver-chosen entry of a 4-entry menu "
    "per scan type (empty / other hosts / target / wrong port), a refusal answers {'reason': ...}; one history entry per "
    "step as PrimaiteGame.apply_agent_actions does",
    "threat actors: frequency>=0, variance>=0, start_step-variance>=1 (a first turn at step 0 indexes an empty history "
    "and raises IndexError - reported separately, not a C19 violation)",
    "threat actors, prefix>0: the pre-state is the one reached by `prefix` undisturbed steps (unit timing) with "
    "next_execution_timestep replaced by an arbitrary value within frequency+-variance of the last turn",
]


def tap_prob_zero(sidx: int, rkc: bool, rks: bool, T: int = 12, kind: str = "tap-003", n_acc: int = 1, n_acl: int = 1):
    """A kill-chain stage whose configured probability of success is 0 is never carried out: in an otherwise
    undisturbed run (every request granted, every other probability 1) the chain never gets past that stage and the
    agent emits nothing but do-nothing once it has reached it."""
    cls, mods, SC = _tap_modules(kind)
    spec = TAPS[kind]
    zero = pick(spec.get("zero_stages", spec["prob_stages"]), sidx)
    with concrete():
        _quiet()
        st = _tap_settings(kind, 0, n_acc, n_acl)
        for s in spec["prob_stages"]:
            st["kill_chain"][s]["probability"] = 0 if s == zero else 1
        sobj = cls.AgentSettingsSchema(**st)
        rand = _Rand(ints=[0] * (2 * T + 4), idxs=[0, 0], reals=[True, False] * T)
        for m in mods:
            m.random = rand
        SC.random = rand
        agent = cls(config={"type": kind, "ref": "attacker", "team": "RED", "agent_settings": sobj})
    sobj.repeat_kill_chain, sobj.repeat_kill_chain_stages = rkc, rks
    limit = spec["stages"].index(zero) + 1
    rank = {"NOT_STARTED": 0, "FAILED": 0, "SUCCEEDED": len(spec["stages"]) + 1}
    for i, s in enumerate(spec["stages"]):
        rank[s] = i + 1
    reached_at = None
    ever_reached = False
    for t in range(T):
        act = agent.get_action(None, t)
        stage = agent.current_kill_chain_stage.name
        check(rank[stage] <= limit, lambda: f"step {t}: reached {stage} although {zero} has probability 0")
        if reached_at is not None:
            check(act[0] == "do-nothing", lambda: f"step {t}: {act[0]} emitted while attempting {zero}, whose probability is 0")
        if stage == zero and reached_at is None:
            reached_at = t
            ever_reached = True
            cover("reached_zero_stage")
        if rank[stage] < limit:
            reached_at = None  # failed and restarted: earlier stages may act again
        _feed(agent, t, act, "success", _happy_response(act))
    check(ever_reached, "harness: horizon too short to reach the stage")


HARNESSES_TAP_ZERO = {
    "fn": tap_prob_zero,
    "quick": [{"fixed": {"T": 12, "kind": "tap-003", "n_acc": 1, "n_acl": 1}, "timeout": 120},
              {"fixed": {"T": 20, "kind": "tap-001", "n_acc": 1, "n_acl": 1}, "timeout": 120}],
    "thorough": [{"fixed": {"T": 30, "kind": "tap-003", "n_acc": 3, "n_acl": 3}, "timeout": 300},
                 {"fixed": {"T": 40, "kind": "tap-001", "n_acc": 1, "n_acl": 1}, "timeout": 300}],
    "cover": ["reached_zero_stage"],
    "bounds": "every stage that has a `probability` option set to 0 in turn (others 1), both repeat flags, undisturbed run "
    "long enough for two passes of the chain",
}

_TAP_COVER = ["bypass", "execute", "started", "acted", "advanced", "failed", "retried", "restarted", "succeeded"]


def _tap_job(kind, prefix, T, timeout, **extra):
    fx = {"T": T, "prefix": prefix, "kind": kind, "n_nodes": 2 if prefix == 0 else 0, "n_acc": 1, "n_acl": 1, "unit": False}
    fx.update(extra)
    return {"fixed": fx, "timeout": timeout}


# undisturbed timelines (unit timing): tap-003 starts at step 1, MANIPULATION acts at 5-6, EXPLOIT at 7-8, SUCCEEDED at 8,
# concluded at 9; tap-001: DOWNLOAD 2-3, INSTALL 4, ACTIVATE 5, PROPAGATE 6-9, C2 11-13, PAYLOAD 14-16, concluded at 17.
_Q3 = [_tap_job("tap-003", p, 3, 300) for p in (0, 2, 4, 5, 6, 7, 8)]
_Q1 = [_tap_job("tap-001", p, 2 if 6 <= p <= 9 else 3, 300) for p in (0, 2, 4, 5, 6, 7, 8, 9, 10, 11, 12, 13, 14, 15, 16)]
_FLAGS = [{"rkc": a, "rks": b} for a in (False, True) for b in (False, True)]
_T3 = [
    _tap_job("tap-003", p, 5 if (5 <= p <= 7 and f.get("rks")) else 6, 1500, **f)  # measured: <= ~800 s CPU each
    for p in range(0, 9)
    for f in (_FLAGS if p >= 4 else [{}])
]
_T3 += [_tap_job("tap-003", p, 5, 1500, n_acc=2, n_acl=2) for p in range(4, 14)]  # MANIPULATION 5-8, EXPLOIT 9-12
_T3 += [_tap_job("tap-003", p, 5, 1500, n_acc=0, n_acl=2) for p in range(3, 9)]  # no account changes
_T1 = [_tap_job("tap-001", p, 4 if 5 <= p <= 9 else 5, 1500, **f) for p in range(0, 17) for f in (_FLAGS if p >= 3 else [{}])]
_TU = [
    _tap_job(k, 0, 9 if (k == "tap-001" and f["rks"]) else 10, 1500, unit=True, n_acc=a, **f)  # T=10 there: > 1500 s
    for k, a in (("tap-003", 0), ("tap-003", 1), ("tap-001", 1))
    for f in _FLAGS
]
HARNESSES["tap_run"] = {
    "fn": tap_run,
    "quick": _Q3 + _Q1,
    "thorough": _T3 + _T1 + _TU,
    "cover": _TAP_COVER,
    "bounds": {
        "quick": "windows of 3 steps (2 inside PROPAGATE) starting at every second step of the undisturbed kill chain of "
        "TAP003 (steps 0-10) and every step of TAP001 (0-18): start_step/frequency/variance/next_execution_timestep unbounded "
        "solver integers, both repeat flags, all randint/choice draws, trial outcomes, 3 response statuses and 4 scan "
        "results per step solver-chosen; 1 account change, 1 malicious ACL, 2 network addresses, 0 or 2 start nodes",
        "thorough": "tap-003: windows of 6 steps (5 for steps 5-7 with stage repetition on) from every step 0-8 (split on the repeat flags), windows of 5 steps with "
        "2 account changes + 2 ACLs (steps 4-13) and with no account change; tap-001: windows of 5 steps (4 inside "
        "PROPAGATE) from every step 0-16, split on the repeat flags; plus 10 steps (tap-001 with stage repetition on: 9) from construction with unit timing",
    },
}
HARNESSES["tap_prob_zero"] = HARNESSES_TAP_ZERO

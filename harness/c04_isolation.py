"""C04 – episodes and environment instances are isolated from one another (Engine S)."""
from __future__ import annotations

import copy

from vlib.chdriver import all_of, any_of, assume, check, cover, fail, pick, pick_int, rng
from vlib.fixtures import concrete, mini_scenario, normalise, quiet

SOURCES = [
    "/repo/src/primaite/session/environment.py",
    "/repo/src/primaite/session/episode_schedule.py",
    "/repo/src/primaite/game/game.py",
    "/repo/src/primaite/simulator/network/container.py",
    "/repo/src/primaite/simulator/network/hardware/base.py",
    "/repo/src/primaite/game/agent/observations/nic_observations.py",
    "/repo/src/primaite/simulator/system/core/packet_capture.py",
    "/repo/src/primaite/simulator/__init__.py",
    "/repo/src/primaite/simulator/network/airspace.py",
]
ENCODED = [
    "PrimaiteGymEnv.__init__/reset/step, PrimaiteGame.from_config/setup_for_episode, ConstantEpisodeScheduler.__call__",
    "the whole simulator for the generated scenarios (dirtying prefix, compared suffix)",
    "object graphs of two games built from the same scenario (identity walk over every SimComponent / BaseModel "
    "instance attribute: no shared mutable container or component)",
]
ASSUMPTIONS = [
    "self-composition: in ONE path a used environment (k solver-chosen dirtying actions, then reset(seed)) and a freshly "
    "constructed one (reset(seed)) take the same solver-chosen suffix action followed by a do-nothing step; compared: "
    "observation, reward, every agent's action/response status, identifier-normalised Simulation.describe_state()",
    "two instances: environment A is driven alone, and again with a differently configured environment B (NMNE "
    "capture, thresholds) constructed/stepped/reset in between at a solver-chosen interleaving position; A's "
    "trajectory must be identical",
    "all inputs are finite choices: the solver enumerates them exhaustively (no arithmetic to decide)",
    "identifiers (uuid4, MAC addresses, session ids) are normalised by order of first appearance",
]


def _mk(kind: str, nmne: bool, low: int = 0, seed: int = 3):
    from primaite.session.environment import PrimaiteGymEnv

    cfg = mini_scenario(kind, seed=seed)
    if nmne:
        cfg["simulation"]["network"]["nmne_config"] = {"capture_nmne": True, "nmne_capture_keywords": ["DELETE"]}
    cfg["game"]["thresholds"]["nmne"]["low"] = low
    return PrimaiteGymEnv(env_config=copy.deepcopy(cfg))


def _trace(env, actions):
    out = []
    for a in actions:
        obs, rew, term, trunc, info = env.step(a)
        st = {n: (h.action, h.response.status) for n, h in info["agent_actions"].items()}
        out.append((copy.deepcopy(obs), rew, trunc, st, normalise(env.game.simulation.describe_state())))
    return out


def _diff(t1, t2):
    for i, (x, y) in enumerate(zip(t1, t2)):
        for j, nm in enumerate(("observation", "reward", "truncated", "agent actions/statuses", "simulation state")):
            if x[j] != y[j]:
                d = _first_diff(x[j], y[j]) if isinstance(x[j], dict) else f"{x[j]!r} vs {y[j]!r}"
                return f"step {i}: {nm} differs: {d}"
    return ""


def _first_diff(a, b, path=""):
    if type(a) != type(b):
        return f"{path}: {a!r} vs {b!r}"
    if isinstance(a, dict):
        for k in sorted(set(a) | set(b), key=str):
            if k not in a or k not in b:
                return f"{path}[{k!r}] only on one side"
            d = _first_diff(a[k], b[k], f"{path}[{k!r}]")
            if d:
                return d
        return ""
    if isinstance(a, (list, tuple)):
        if len(a) != len(b):
            return f"{path}: length {len(a)} vs {len(b)}"
        for i, (x, y) in enumerate(zip(a, b)):
            d = _first_diff(x, y, f"{path}[{i}]")
            if d:
                return d
        return ""
    return "" if a == b else f"{path}: {a!r} vs {b!r}"


def reset_isolation(d0: int, d1: int, s0: int, rs: int, k: int = 1, kind: str = "switched", nmne: bool = True):
    with concrete():
        quiet()
        used = _mk(kind, nmne)
        n_actions = len(used.agent.action_manager.action_map)
    acts = [d0, d1][:k]
    assume(all_of(rng(s0, 0, n_actions - 1), rng(rs, 0, 3), *[rng(a, 0, n_actions - 1) for a in acts]))
    dirty = [pick_int(a, 0, n_actions - 1) for a in acts]
    suffix = [pick_int(s0, 0, n_actions - 1), 0, 0, 0]
    seed = pick([5, 0, 1, 2**31 - 1], rs)  # the seed the compared episode is started with (0 is a legal seed)
    with concrete():
        used.reset(seed=11)
        try:
            for a in dirty:
                used.step(a)
                used.step(0)
            used.reset(seed=seed)
            t_used = _trace(used, suffix)
            fresh = _mk(kind, nmne)
            fresh.reset(seed=seed)
            t_fresh = _trace(fresh, suffix)
        except Exception as e:
            fail(f"raised {type(e).__name__}: {str(e)[:300]}")
        d = _diff(t_used, t_fresh)
    cover("compared")
    check(not d, lambda: f"after dirtying actions {dirty} and reset(seed={seed}), suffix {suffix} differs from a fresh environment reset with the same seed: {d}")


def two_instances(a0: int, a1: int, pos: int, b_nmne: bool, b_low: int, kind: str = "switched"):
    """A alone vs A with a differently configured B interleaved at position pos (0: B built before A's first step,
    1: between A's steps, 2: B built+stepped+reset between A's steps)."""
    with concrete():
        quiet()
        probe = _mk(kind, True)
        n_actions = len(probe.agent.action_manager.action_map)
    assume(all_of(rng(a0, 0, n_actions - 1), rng(a1, 0, n_actions - 1), rng(pos, 0, 2), rng(b_low, 0, 1)))
    acts = [pick_int(a0, 0, n_actions - 1), pick_int(a1, 0, n_actions - 1), 0]
    p = pick_int(pos, 0, 2)
    low = pick_int(b_low, 0, 1) * 3
    with concrete():
        try:
            alone = _mk(kind, True)
            alone.reset(seed=5)
            t_alone = _trace(alone, acts)
            a = _mk(kind, True)
            a.reset(seed=5)
            import random

            import numpy as np

            if p == 0:
                st = (random.getstate(), np.random.get_state())
                b = _mk(kind, b_nmne, low, seed=9)
                b.reset()
                random.setstate(st[0])
                np.random.set_state(st[1])
                t_a = _trace(a, acts)
            else:
                t_a = _trace(a, acts[:1])
                st = (random.getstate(), np.random.get_state())
                b = _mk(kind, b_nmne, low, seed=9)
                b.reset()
                if p == 2:
                    b.step(1)
                    b.reset()
                    b.close()
                random.setstate(st[0])
                np.random.set_state(st[1])
                t_a += _trace(a, acts[1:])
        except Exception as e:
            fail(f"raised {type(e).__name__}: {str(e)[:300]}")
        d = _diff(t_alone, t_a)
    cover("compared")
    check(not d, lambda: f"environment A behaves differently when environment B (nmne={b_nmne}, nmne low threshold={low}) is interleaved at position {p}: {d}")


def second_instance_fresh(a_nmne: bool, b_nmne: bool, a_steps: int, a0: int, kind: str = "switched"):
    """An environment B constructed after another, differently configured environment A (built, stepped, possibly
    closed) behaves exactly like B constructed on its own."""
    with concrete():
        quiet()
        probe = _mk(kind, False)  # (capture off: the probe must not leave class-level state behind for B-alone)
        n_actions = len(probe.agent.action_manager.action_map)
    assume(all_of(rng(a_steps, 0, 2), rng(a0, 0, n_actions - 1)))
    acts = [pick_int(a0, 0, n_actions - 1), 19, 0]
    na = pick_int(a_steps, 0, 2)
    with concrete():
        try:
            b_alone = _mk(kind, b_nmne, seed=9)
            b_alone.reset(seed=5)
            t_alone = _trace(b_alone, acts)
            a = _mk(kind, a_nmne, seed=3)
            a.reset(seed=11)
            for _ in range(na):
                a.step(1)
            b = _mk(kind, b_nmne, seed=9)
            b.reset(seed=5)
            t_b = _trace(b, acts)
        except Exception as e:
            fail(f"raised {type(e).__name__}: {str(e)[:300]}")
        d = _diff(t_alone, t_b)
    cover("compared")
    check(not d, lambda: f"environment B (nmne={b_nmne}) constructed after environment A (nmne={a_nmne}, {na} steps) differs from B on its own: {d}")


def shared_state_walk(kind_i: int):
    """Two games built from the same scenario share no mutable container and no component (identity walk)."""
    import enum

    from pydantic import BaseModel

    assume(rng(kind_i, 0, 1))
    kind = pick(["switched", "routed"], kind_i)
    with concrete():
        quiet()
        e1 = _mk(kind, True)
        e2 = _mk(kind, True)
        e1.reset()
        e2.reset()

        def walk(root):
            seen = {}
            stack = [(root, "game")]
            while stack:
                o, path = stack.pop()
                if isinstance(o, (str, bytes, int, float, bool, type(None), enum.Enum, type)) or callable(o) and not isinstance(o, BaseModel):
                    continue
                if id(o) in seen:
                    continue
                if isinstance(o, (dict, list, set)):
                    seen[id(o)] = (path, o)
                    items = o.items() if isinstance(o, dict) else enumerate(o) if isinstance(o, list) else ((i, x) for i, x in enumerate(list(o)))
                    for k, v in items:
                        stack.append((v, f"{path}[{k!r}]"))
                    continue
                if isinstance(o, tuple):
                    for i, v in enumerate(o):
                        stack.append((v, f"{path}[{i}]"))
                    continue
                mod = type(o).__module__ or ""
                if not mod.startswith("primaite"):
                    continue
                seen[id(o)] = (path, o)
                d = dict(getattr(o, "__dict__", {}) or {})
                priv = getattr(o, "__pydantic_private__", None) or {}
                extra = getattr(o, "__pydantic_extra__", None) or {}
                for k, v in list(d.items()) + list(priv.items()) + list(extra.items()):
                    stack.append((v, f"{path}.{k}"))
            return seen

        s1 = walk(e1.game)
        s2 = walk(e2.game)
        shared = [(s1[i][0], s2[i][0], type(s1[i][1]).__name__) for i in s1 if i in s2]
        # containers that are empty on both sides and never written are still shared objects: report all
    cover("walked")
    check(len(s1) > 500, "identity walk did not traverse the game (harness error)")
    check(not shared, lambda: f"two games share {len(shared)} mutable object(s), e.g. {shared[:4]}")


SCHEDULED = [
    "/repo/src/primaite/config/_package_data/mini_scenario_with_simulation_variation",
    "/repo/src/primaite/config/_package_data/scenario_with_placeholders",
    "/repo/tests/assets/configs/scenario_with_placeholders",
]


def scheduled_isolation(which: int, n_resets: int, step_each: bool):
    """Episode-scheduled scenario directories: every episode of a long-lived environment (including the episodes
    after the schedule has wrapped around, several times) is the simulation a brand-new scheduler + loader builds for
    that episode index; no reset raises."""
    from primaite.game.game import PrimaiteGame
    from primaite.session.environment import PrimaiteGymEnv
    from primaite.session.episode_schedule import build_scheduler

    assume(all_of(rng(which, 0, len(SCHEDULED)), rng(n_resets, 1, 11)))
    n = pick_int(n_resets, 1, 11)
    w = pick_int(which, 0, len(SCHEDULED))
    tmpdir = None
    if w < len(SCHEDULED):
        path = SCHEDULED[w]
    else:
        # a generated episode-scheduled directory whose base scenario contains a router, ACL rules and routes
        with concrete():
            import tempfile

            import yaml

            tmpdir = tempfile.mkdtemp(prefix="verif_sched_")
            cfg = mini_scenario("routed")
            with open(tmpdir + "/base.yaml", "w") as fh:
                yaml.safe_dump(cfg, fh)
            for v in ("v0.yaml", "v1.yaml"):
                with open(tmpdir + "/" + v, "w") as fh:
                    fh.write("# variant " + v + "\n")
            with open(tmpdir + "/schedule.yaml", "w") as fh:
                yaml.safe_dump({"base_scenario": "base.yaml", "schedule": {0: ["v0.yaml"], 1: ["v1.yaml"]}}, fh)
        path = tmpdir
    try:
        _scheduled_body(path, n, step_each)
    finally:
        if tmpdir is not None:
            import shutil

            shutil.rmtree(tmpdir, ignore_errors=True)


def _scheduled_body(path, n, step_each):
    from primaite.game.game import PrimaiteGame
    from primaite.session.environment import PrimaiteGymEnv
    from primaite.session.episode_schedule import build_scheduler

    with concrete():
        quiet()
        try:
            env = PrimaiteGymEnv(env_config=path)
        except Exception as e:
            fail(f"constructing the environment for {path} raised {type(e).__name__}: {str(e)[:200]}")
        for k in range(1, n + 1):
            try:
                env.reset(seed=5)
                if step_each:
                    env.step(0)
            except Exception as e:
                fail(f"{path.split('/')[-1]}: reset/step of episode {k} raised {type(e).__name__}: {str(e)[:200]}")
        try:
            env.reset(seed=5)
        except Exception as e:
            fail(f"{path.split('/')[-1]}: reset into episode {n + 1} raised {type(e).__name__}: {str(e)[:200]}")
        k = n + 1
        fresh = PrimaiteGame.from_config(build_scheduler(path)(k))
        fresh.setup_for_episode(episode=k)
        s_used = normalise(env.game.simulation.describe_state())
        s_fresh = normalise(fresh.simulation.describe_state())
        d = _first_diff(s_used, s_fresh)
        agents_used = {n_: (type(a).__name__, len(a.action_manager.action_map)) for n_, a in env.game.agents.items()}
        agents_fresh = {n_: (type(a).__name__, len(a.action_manager.action_map)) for n_, a in fresh.agents.items()}
    cover("scheduled")
    check(not d, lambda: f"{path.split('/')[-1]}: episode {k} of a long-lived environment differs from the simulation a new loader builds for that episode: {d}")
    check(agents_used == agents_fresh, lambda: f"{path.split('/')[-1]}: agents of episode {k} differ from a fresh build")


HARNESSES = {
    "reset_isolation": {
        "fn": reset_isolation,
        "quick": [{"fixed": {"k": 1, "kind": "switched", "s0": s, "rs": 0}, "timeout": 280} for s in (0, 19, 23, 40)] + [{"fixed": {"k": 1, "kind": "routed", "s0": 0, "rs": 0}, "timeout": 280}, {"fixed": {"k": 1, "kind": "firewalled", "s0": 0, "rs": 0}, "timeout": 400}]
        # the seed of the compared episode solver-chosen in {5, 0, 1, 2^31-1}
        + [{"fixed": {"k": 1, "kind": "switched", "s0": 0, "d0": d}, "timeout": 280} for d in (0, 19)],
        "thorough": [{"fixed": {"k": 1, "kind": kd, "s0": s, "rs": 0}, "timeout": 1500} for kd in ("switched", "routed") for s in range(0, 54, 6)]
        + [{"fixed": {"k": 2, "kind": "switched", "s0": 0, "d0": d, "rs": 0}, "timeout": 1500} for d in (24, 37, 41, 39, 7, 44)]
        + [{"fixed": {"k": 1, "kind": "switched", "s0": 0, "rs": r}, "timeout": 1500} for r in (1, 2, 3)],
        "cover": ["compared"],
        "bounds": {"quick": "k=1 dirtying action (every action of the map) then reset(seed=5), suffix action in {do-nothing, app execute, file scan, os scan} + 3 do-nothing steps; dirtying action in {do-nothing, app execute} with the reset seed in {5, 0, 1, 2^31-1}", "thorough": "every sixth suffix action on both topologies; k=2 dirtying prefixes"},
    },
    "two_instances": {
        "fn": two_instances,
        "quick": [{"fixed": {"a0": 0, "a1": 19, "kind": "switched"}, "timeout": 200}],
        "thorough": [{"fixed": {"a0": a, "kind": kd}, "timeout": 1500} for a in (0, 19, 41) for kd in ("switched", "routed")],
        "cover": ["compared"],
        "bounds": "B differs in NMNE capture and NMNE threshold; 3 interleaving positions; A's actions fixed (quick) / a1 over the whole map (thorough)",
    },
    "second_instance_fresh": {
        "fn": second_instance_fresh,
        "quick": [{"fixed": {"a0": 0, "kind": "switched"}, "timeout": 200}],
        "thorough": [{"fixed": {"kind": kd}, "timeout": 1500} for kd in ("switched", "routed")],
        "cover": ["compared"],
        "bounds": "A and B with NMNE capture on/off independently, A stepped 0-2 times before B is built; B's first action fixed (quick) / any (thorough)",
    },
    "scheduled_isolation": {
        "fn": scheduled_isolation,
        "quick": [{"fixed": {"which": w}, "timeout": 280} for w in range(len(SCHEDULED) + 1)],
        "thorough": [{"fixed": {"which": w}, "timeout": 900} for w in range(len(SCHEDULED) + 1)],
        "cover": ["scheduled"],
        "bounds": "the shipped episode-scheduled scenario directories (2 and 4 schedule entries) and a generated one with a router (2 entries), 1..11 consecutive resets (the schedule wraps around up to 5 times), with or without a step in each episode",
    },
    "shared_state_walk": {
        "fn": shared_state_walk,
        "quick": [{"fixed": {}, "timeout": 120}],
        "thorough": [{"fixed": {}, "timeout": 120}],
        "cover": ["walked"],
        "bounds": "every primaite object, dict, list and set reachable from the instance attributes of two games built from each generated scenario",
    },
}

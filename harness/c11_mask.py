"""C11 – the action mask agrees with what the simulator would refuse (Engine S)."""
from __future__ import annotations

import copy

from vlib.chdriver import all_of, any_of, assume, check, cover, fail, pick, pick_int, rng
from vlib.fixtures import concrete, mini_scenario, quiet
from harness.c05_requests import NODE_STATES, _set_node_state, _wrap_leaves

SOURCES = [
    "/repo/src/primaite/simulator/core.py",
    "/repo/src/primaite/game/game.py",
    "/repo/src/primaite/session/environment.py",
    "/repo/src/primaite/simulator/network/hardware/base.py",
    "/repo/src/primaite/simulator/system/services/service.py",
    "/repo/src/primaite/simulator/system/applications/application.py",
    "/repo/src/primaite/simulator/file_system/file_system.py",
    "/repo/src/primaite/simulator/file_system/folder.py",
]
ENCODED = [
    "primaite.game.game.PrimaiteGame.action_mask",
    "primaite.session.environment.PrimaiteGymEnv.action_masks",
    "primaite.simulator.core.RequestManager.check_valid / __call__",
    "ActionManager.form_request for every entry of the generated action map",
    "all validators on the paths of the generated action map (node on/off, service state, application state, NIC "
    "enabled/disabled, file/folder exists and not deleted)",
]
ASSUMPTIONS = [
    "generated mini-scenarios (switched LAN; host-router-server) built by the real PrimaiteGame.from_config with an "
    "action map holding every maskable host action type x the components of client_1, actions naming missing "
    "components, and (routed) router ACL/port actions",
    "the action map is also listed in descending and shuffled key order (same numbering): mask entry i must describe action i",
    "one configuration installs an application at run time (software_manager application install request) and adds its execute/scan/close/fix actions to the map",
    "pre-state: client_1 power state over all 4 members (driven there by the real power API), its services and "
    "applications overwritten with every member of the real operating-state enums (incl. RESTARTING/INSTALLING), NIC "
    "flag, file/folder live or deleted via the real file-system API; no reachability restriction (the equality "
    "mask == reached must hold in every state)",
    "'handler reached' observed by wrapping every leaf RequestType.func of the live tree",
]

FILE_STATES = ["live", "file_deleted", "folder_deleted", "folder_restored_file_deleted"]


RT_APP = "dos-bot"


def _rt_actions(node: str):
    """Actions addressing an application that is only installed at run time (by the node-application-install action)."""
    return [(f"node-application-{v}", {"node_name": node, "application_name": RT_APP}) for v in ("execute", "scan", "close", "fix")]


def mask_vs_exec(ai: int, ns: int, svc_state: int, app_state: int, nic_en: bool, fstate: int, kind: str = "switched", couple: bool = False, via_env: bool = False, order: str = "asc", rt_install: bool = False):
    from primaite.simulator.system.applications.application import ApplicationOperatingState
    from primaite.simulator.system.services.service import ServiceOperatingState

    with concrete():
        quiet()
        cfg = mini_scenario(kind, with_green=False, with_red=False, action_masking=True, action_order=order, extra_actions=_rt_actions("client_1") if rt_install else ())
        if via_env:
            from primaite.session.environment import PrimaiteGymEnv

            env = PrimaiteGymEnv(env_config=copy.deepcopy(cfg))
            game = env.game
        else:
            from primaite.game.game import PrimaiteGame

            env = None
            game = PrimaiteGame.from_config(copy.deepcopy(cfg))
        sim = game.simulation
        node = sim.network.get_node_by_hostname("client_1")
        agent = game.agents["defender"]
        amap = agent.action_manager.action_map
        n_actions = len(amap)
        log = []
        _wrap_leaves(sim._request_manager, log)
    SS = list(ServiceOperatingState)
    AS = list(ApplicationOperatingState)
    assume(
        all_of(
            rng(ai, 0, n_actions - 1), rng(ns, 0, 3), rng(svc_state, 0, len(SS) - 1), rng(app_state, 0, len(AS) - 1), rng(fstate, 0, len(FILE_STATES) - 1)
        )
    )
    if couple:
        assume(any_of(svc_state - app_state == 0, svc_state - app_state == 3))
    ai = pick_int(ai, 0, n_actions - 1)
    name, opts = amap[ai]
    st = pick(NODE_STATES, ns)
    fs = pick(FILE_STATES, fstate)
    with concrete():
        if rt_install:
            # the application is installed during the episode through the same request the install action forms
            r = sim.apply_request(["network", "node", "client_1", "software_manager", "application", "install", RT_APP])
            if r.status != "success":
                fail(f"run-time installation of {RT_APP} answered {r.status}")
            log2 = []
            _wrap_leaves(sim._request_manager, log)  # wrap the routes that the installation has just added
        if fs == "file_deleted":
            node.file_system.delete_file(folder_name="docs", file_name="a.txt")
        elif fs == "folder_deleted":
            node.file_system.delete_folder(folder_name="docs")
        elif fs == "folder_restored_file_deleted":
            # history: the folder was deleted and restored through the file-system requests (its routes are re-registered
            # by the restore), the restore has completed, and afterwards the file was deleted
            node.file_system.delete_folder(folder_name="docs")
            r = sim.apply_request(["network", "node", "client_1", "file_system", "restore", "folder", "docs"])
            if r.status != "success":
                fail(f"restoring the deleted folder answered {r.status}")
            for t in range(1, 6):
                sim.pre_timestep(t)
                sim.apply_timestep(t)
            if node.file_system.get_folder("docs") is None or node.file_system.get_file(folder_name="docs", file_name="a.txt") is None:
                fail("harness: the folder restore did not bring docs/a.txt back")
            node.file_system.delete_file(folder_name="docs", file_name="a.txt")
        _set_node_state(node, st)
    sv = pick(SS, svc_state)
    av = pick(AS, app_state)
    for s in node.services.values():
        s.operating_state = sv
    for a in node.applications.values():
        a.operating_state = av
    if st == "ON":
        node.network_interface[1].enabled = nic_en
    try:
        mask = env.action_masks() if via_env else game.action_mask("defender")
    except Exception as e:
        fail(f"action_mask raised {type(e).__name__}: {e}")
    check(len(mask) == n_actions, "mask length differs from the action map")
    allowed = bool(mask[ai])
    request = agent.action_manager.form_request(action_identifier=name, action_options=opts)
    del log[:]
    try:
        resp = sim.apply_request(request)
    except Exception as e:
        fail(f"executing action {name} {opts} raised {type(e).__name__}: {e}")
    reached = len(log) > 0
    if reached:
        cover("reached")
    else:
        cover("turned_away")
    check(
        allowed == reached,
        f"action {ai} {name} {opts}: mask says {'available' if allowed else 'unavailable'} but execution "
        f"{'reached its handler' if reached else 'was turned away (' + resp.status + ')'} [node {st}, file state {fs}]",
    )
    if not allowed:
        check(resp.status != "success", f"masked-out action {name} succeeded")
    if allowed and resp.status == "failure":
        # an allowed action may still fail inside its handler, but never by a permission rule
        reason = str(resp.data.get("reason", ""))
        check("Cannot perform request" not in reason, f"action {name} allowed by the mask was refused by a permission rule: {reason}")


HARNESSES = {
    "mask_vs_exec": {
        "fn": mask_vs_exec,
        "quick": [{"fixed": {"kind": "switched", "ns": n, "couple": True}, "timeout": 500} for n in range(4)]
        + [{"fixed": {"kind": "routed", "ns": 0, "couple": True, "fstate": 0, "via_env": True}, "timeout": 280}]
        + [{"fixed": {"kind": "firewalled", "ns": 0, "svc_state": 0, "app_state": 0, "fstate": 0}, "timeout": 280}]
        + [{"fixed": {"kind": "switched", "ns": 0, "svc_state": 0, "app_state": 0, "fstate": 3}, "timeout": 280}]
        + [{"fixed": {"kind": "switched", "ns": 0, "couple": True, "fstate": 0, "order": o, "svc_state": 0}, "timeout": 280} for o in ("desc", "shuffled")]
        + [{"fixed": {"kind": "switched", "ns": 0, "fstate": 0, "svc_state": 0, "rt_install": True}, "timeout": 280}],
        "thorough": [{"fixed": {"kind": k, "ns": n, "fstate": f}, "timeout": 1500} for k in ("switched", "routed") for n in range(4) for f in range(4)]
        + [{"fixed": {"kind": "routed", "ns": n, "fstate": 0, "order": o}, "timeout": 1500} for n in (0, 2) for o in ("desc", "shuffled")]
        + [{"fixed": {"kind": "firewalled", "ns": n, "fstate": 0, "couple": True}, "timeout": 1500} for n in range(4)],
        "cover": ["reached", "turned_away"],
        "bounds": {
            "quick": "every entry of the action map (66) x 4 power states x 6 coupled (service, application) states x NIC flag x 4 file states (live, file deleted, folder deleted, folder restored then file deleted); routed topology (79 actions) with node ON through PrimaiteGymEnv.action_masks; firewall-with-DMZ topology (94 actions); descending and shuffled action-map order; an application installed at run time",
            "thorough": "switched and routed topologies x 4 power states x full 6x3 service/application product x NIC flag x 4 file states; routed with descending / shuffled map order; firewall-with-DMZ topology x 4 power states",
        },
    },
}

"""Builders for real PrimAITE objects + environment stubs shared by the harnesses."""
from __future__ import annotations

import contextlib
import copy
import logging
import re
import warnings
from typing import Any, Dict, List, Optional, Tuple

warnings.filterwarnings("ignore")

from vlib import chdriver  # noqa: E402


@contextlib.contextmanager
def concrete():
    """Run the body untraced under CrossHair (concrete construction code); no-op in plain replay."""
    if chdriver._SYMBOLIC_MODE:
        from crosshair.core import NoTracing

        with NoTracing():
            yield
    else:
        yield


_quiet_done = False


def quiet():
    """Stub logging/formatting sinks with empty bodies (their output never feeds behaviour)."""
    global _quiet_done
    if _quiet_done:
        return
    _quiet_done = True
    logging.disable(logging.CRITICAL)
    from primaite.simulator.system.core.sys_log import SysLog
    from primaite.simulator.system.core.packet_capture import PacketCapture

    def _noop(self, *a, **k):
        return None

    for name in ("debug", "info", "warning", "error", "critical"):
        if hasattr(SysLog, name):
            setattr(SysLog, name, _noop)
    for name in ("capture_inbound", "capture_outbound", "capture"):
        if hasattr(PacketCapture, name):
            setattr(PacketCapture, name, _noop)
    try:
        from primaite.game.agent.agent_log import AgentLog

        for name in ("debug", "info", "warning", "error", "critical"):
            if hasattr(AgentLog, name):
                setattr(AgentLog, name, _noop)
    except Exception:
        pass


def mk_node(ntype: str, hostname: str, **cfg):
    from primaite.simulator.network.hardware.base import Node
    import primaite.simulator.network.hardware.nodes.host.computer  # noqa
    import primaite.simulator.network.hardware.nodes.host.server  # noqa
    import primaite.simulator.network.hardware.nodes.network.switch  # noqa
    import primaite.simulator.network.hardware.nodes.network.router  # noqa
    import primaite.simulator.network.hardware.nodes.network.firewall  # noqa
    import primaite.simulator.network.hardware.nodes.network.wireless_router  # noqa

    cls = Node._registry[ntype]
    c = {"type": ntype, "hostname": hostname}
    airspace = cfg.pop("airspace", None)
    c.update(cfg)
    if airspace is not None:
        return cls.from_config(config=c, airspace=airspace)
    return cls.from_config(config=c)


def mk_host(ntype: str, hostname: str, ip: str, gw: Optional[str] = None, **cfg):
    c = dict(ip_address=ip, subnet_mask="255.255.255.0")
    if gw:
        c["default_gateway"] = gw
    c.update(cfg)
    return mk_node(ntype, hostname, **c)


def new_sim():
    from primaite.simulator.sim_container import Simulation

    return Simulation()


UUID_RE = re.compile(r"[0-9a-f]{8}-[0-9a-f]{4}-[0-9a-f]{4}-[0-9a-f]{4}-[0-9a-f]{12}")
MAC_RE = re.compile(r"^([0-9a-f]{2}:){5}[0-9a-f]{2}$")


def normalise(state: Any, _map: Optional[Dict[str, str]] = None) -> Any:
    """uuid/MAC-normalise a describe_state() tree (identifiers are opaque)."""
    if _map is None:
        _map = {}

    def nm(s: str) -> str:
        if UUID_RE.fullmatch(s) or MAC_RE.fullmatch(s):
            if s not in _map:
                _map[s] = f"<id{len(_map)}>"
            return _map[s]
        return s

    if isinstance(state, dict):
        return {nm(k) if isinstance(k, str) else k: normalise(v, _map) for k, v in state.items()}
    if isinstance(state, (list, tuple)):
        return [normalise(v, _map) for v in state]
    if isinstance(state, str):
        return nm(state)
    return state


def snap(component) -> Any:
    """Deep copy of describe_state()."""
    return copy.deepcopy(component.describe_state())


class CallLog:
    """Wrap methods on instances (or classes) to record that they were entered."""

    def __init__(self):
        self.calls: List[Tuple[str, Any]] = []
        self._undo = []

    def wrap(self, obj, attr: str, tag: str):
        orig = getattr(obj, attr)
        log = self.calls

        def wrapper(*a, **k):
            log.append((tag, None))
            return orig(*a, **k)

        try:
            object.__setattr__(obj, attr, wrapper)
        except Exception:
            setattr(obj, attr, wrapper)
        self._undo.append((obj, attr))
        return wrapper

    def count(self, tag: str) -> int:
        return sum(1 for t, _ in self.calls if t == tag)

    def clear(self):
        del self.calls[:]


# --------------------------------------------------------------------------------------------------------------
# generated mini-scenarios (dicts accepted by PrimaiteGame.from_config / PrimaiteGymEnv)
# --------------------------------------------------------------------------------------------------------------
def host_actions(node: str, services=("dns-client", "ftp-client"), apps=("web-browser",), folder="docs", file="a.txt"):
    """Action-map entries (action, options) addressing the components of one host."""
    acts = []
    for s in services:
        for verb in ("scan", "stop", "start", "pause", "resume", "restart", "disable", "enable", "fix"):
            acts.append((f"node-service-{verb}", {"node_name": node, "service_name": s}))
    for a in apps:
        for verb in ("execute", "scan", "close", "fix"):
            acts.append((f"node-application-{verb}", {"node_name": node, "application_name": a}))
    for verb in ("scan", "delete", "restore", "corrupt", "access", "checkhash", "repair"):
        acts.append((f"node-file-{verb}", {"node_name": node, "folder_name": folder, "file_name": file}))
    acts.append(("node-file-create", {"node_name": node, "folder_name": folder, "file_name": "new.txt"}))
    acts.append(("node-file-create", {"node_name": node, "folder_name": folder, "file_name": file}))
    for verb in ("scan", "checkhash", "repair", "restore"):
        acts.append((f"node-folder-{verb}", {"node_name": node, "folder_name": folder}))
    acts.append(("node-folder-create", {"node_name": node, "folder_name": "newfolder"}))
    acts.append(("node-folder-create", {"node_name": node, "folder_name": folder}))
    for verb in ("enable", "disable"):
        acts.append((f"host-nic-{verb}", {"node_name": node, "nic_num": 1}))
    for a in ("node-os-scan", "node-shutdown", "node-startup", "node-reset"):
        acts.append((a, {"node_name": node}))
    acts.append(("node-application-install", {"node_name": node, "application_name": "dos-bot"}))
    acts.append(("node-application-remove", {"node_name": node, "application_name": "dos-bot"}))
    acts.append(("node-application-remove", {"node_name": node, "application_name": apps[0]}))
    return acts


def missing_target_actions(node: str):
    """Actions naming components that do not exist."""
    return [
        ("node-service-stop", {"node_name": node, "service_name": "no-such-service"}),
        ("node-application-execute", {"node_name": node, "application_name": "no-such-app"}),
        ("node-file-scan", {"node_name": node, "folder_name": "nofolder", "file_name": "nofile"}),
        ("node-folder-scan", {"node_name": node, "folder_name": "nofolder"}),
        ("host-nic-disable", {"node_name": node, "nic_num": 7}),
        ("node-shutdown", {"node_name": "no-such-node"}),
        ("node-file-delete", {"node_name": node, "folder_name": "nofolder", "file_name": "nofile"}),
        ("host-nic-disable", {"node_name": node, "nic_num": 0}),  # falsy but well-formed parameter: interfaces count from 1
        ("host-nic-enable", {"node_name": node, "nic_num": 0}),
        ("node-application-install", {"node_name": node, "application_name": "no-such-app"}),
    ]


def router_actions(router: str):
    acts = []
    for pos in (0, 1, 23, 24, -1):
        acts.append(
            (
                "router-acl-add-rule",
                dict(
                    target_router=router, position=pos, permission="DENY", src_ip="192.168.1.2", src_wildcard="NONE",
                    src_port="ALL", dst_ip="ALL", dst_wildcard="NONE", dst_port="ALL", protocol_name="ALL",
                ),
            )
        )
        acts.append(("router-acl-remove-rule", {"target_router": router, "position": pos}))
    for verb in ("enable", "disable"):
        acts.append((f"network-port-{verb}", {"target_nodename": router, "port_num": 1}))
    # a rule using the LAST listed address and wildcard mask as destination (highest ids of the observation encoding)
    acts.append(
        (
            "router-acl-add-rule",
            dict(
                target_router=router, position=2, permission="PERMIT", src_ip="10.0.0.1", src_wildcard="0.0.0.3",
                src_port="DNS", dst_ip="10.0.0.1", dst_wildcard="0.0.0.3", dst_port="DNS", protocol_name="UDP",
            ),
        )
    )
    return acts


def firewall_actions(fw: str):
    acts = []
    for port in ("internal", "external", "dmz"):
        for direction in ("inbound", "outbound"):
            # position 1 is free, position 10 holds the scenario's permit rule (the add overwrites it), 24 is out of range
            for pos in ((1, 10, 24) if (port, direction) == ("internal", "inbound") else (1, 10)):
                acts.append(
                    (
                        "firewall-acl-add-rule",
                        dict(
                            target_firewall_nodename=fw, firewall_port_name=port, firewall_port_direction=direction, position=pos, permission="DENY",
                            src_ip="192.168.1.2", src_wildcard="NONE", src_port="ALL", dst_ip="ALL", dst_wildcard="NONE", dst_port="ALL", protocol_name="ALL",
                        ),
                    )
                )
                acts.append(("firewall-acl-remove-rule", dict(target_firewall_nodename=fw, firewall_port_name=port, firewall_port_direction=direction, position=pos)))
    for verb in ("enable", "disable"):
        acts.append((f"network-port-{verb}", {"target_nodename": fw, "port_num": 1}))
    return acts


def mini_scenario(
    kind: str = "switched",
    max_episode_length: int = 8,
    action_masking: bool = True,
    flatten_obs: bool = False,
    extra_actions=(),
    action_order: str = "asc",
    with_green: bool = True,
    with_red: bool = True,
    seed: int = 3,
    obs_variant: str = "exact",
    green_busy: bool = False,
    save_actions: bool = False,
):
    """kind: 'switched' (2 hosts + server on a switch) or 'routed' (host - router - server).
    obs_variant: 'exact' (as many components listed as the num_* sizes), 'surplus' (more services / applications /
    folders / files listed than num_*: the surplus is truncated with a warning), 'padded' (fewer listed than num_*) or
    'no_users' (include_users: false for every observed node)."""
    nodes = []
    links = []
    if kind == "switched":
        nodes.append({"type": "switch", "hostname": "switch_1", "num_ports": 4, "start_up_duration": 0})
        gw = None
        lan_b = "192.168.1"
    elif kind == "firewalled":
        permit_all = {10: {"action": "PERMIT"}}
        nodes.append(
            {
                "type": "firewall", "hostname": "firewall_1", "start_up_duration": 0, "shut_down_duration": 0,
                "ports": {
                    "external_port": {"ip_address": "192.168.1.1", "subnet_mask": "255.255.255.0"},
                    "internal_port": {"ip_address": "192.168.2.1", "subnet_mask": "255.255.255.0"},
                    "dmz_port": {"ip_address": "192.168.3.1", "subnet_mask": "255.255.255.0"},
                },
                "acl": {k: copy.deepcopy(permit_all) for k in ("internal_inbound_acl", "internal_outbound_acl", "dmz_inbound_acl", "dmz_outbound_acl", "external_inbound_acl", "external_outbound_acl")},
            }
        )
        gw = True
        lan_b = "192.168.2"
    else:
        nodes.append(
            {
                "type": "router", "hostname": "router_1", "num_ports": 3, "start_up_duration": 0,
                "ports": {1: {"ip_address": "192.168.1.1", "subnet_mask": "255.255.255.0"}, 2: {"ip_address": "192.168.2.1", "subnet_mask": "255.255.255.0"}},
                "acl": {10: {"action": "PERMIT"}},
            }
        )
        gw = True
        lan_b = "192.168.2"

    def host(name, typ, ip, extra):
        d = {"hostname": name, "type": typ, "ip_address": ip, "subnet_mask": "255.255.255.0", "start_up_duration": 1, "shut_down_duration": 1}
        if gw:
            d["default_gateway"] = ip.rsplit(".", 1)[0] + ".1"
        d.update(extra)
        return d

    nodes.append(
        host(
            "client_1", "computer", "192.168.1.2",
            {
                "applications": [{"type": "web-browser", "options": {"target_url": "http://arcd.com/"}}, {"type": "database-client", "options": {"db_server_ip": lan_b + ".10", "server_password": "pw"}}],
                "services": [{"type": "dns-client"}, {"type": "ftp-client"}],
                "folders": [{"folder_name": "docs", "files": [{"file_name": "a.txt"}]}],
                "dns_server": lan_b + ".10",
            },
        )
    )
    nodes.append(
        host(
            "client_2", "computer", "192.168.1.3",
            {
                "applications": [{"type": "web-browser", "options": {"target_url": "http://arcd.com/"}}, {"type": "database-client", "options": {"db_server_ip": lan_b + ".10", "server_password": "pw"}}, {"type": "data-manipulation-bot", "options": {"server_ip": lan_b + ".10", "server_password": "pw", "payload": "DELETE", "port_scan_p_of_success": 1.0, "data_manipulation_p_of_success": 1.0}}],
                "dns_server": lan_b + ".10",
            },
        )
    )
    nodes.append(
        host(
            "server_1", "server", lan_b + ".10",
            {
                "services": [{"type": "dns-server", "options": {"domain_mapping": {"arcd.com": lan_b + ".10"}}}, {"type": "web-server"}, {"type": "database-service", "options": {"db_password": "pw"}}, {"type": "ftp-server"}],
                "folders": [{"folder_name": "docs", "files": [{"file_name": "a.txt"}]}],
            },
        )
    )
    hub = "switch_1" if kind == "switched" else ("firewall_1" if kind == "firewalled" else "router_1")
    if kind == "firewalled":
        nodes.append(host("dmz_1", "server", "192.168.3.10", {"services": [{"type": "web-server"}]}))
    if kind == "switched":
        for i, n in enumerate(("client_1", "client_2", "server_1"), start=1):
            links.append({"endpoint_a_hostname": hub, "endpoint_a_port": i, "endpoint_b_hostname": n, "endpoint_b_port": 1, "bandwidth": 100})
    else:
        nodes.append({"type": "switch", "hostname": "switch_1", "num_ports": 4, "start_up_duration": 0})
        links.append({"endpoint_a_hostname": hub, "endpoint_a_port": 1, "endpoint_b_hostname": "switch_1", "endpoint_b_port": 4, "bandwidth": 100})
        links.append({"endpoint_a_hostname": "switch_1", "endpoint_a_port": 1, "endpoint_b_hostname": "client_1", "endpoint_b_port": 1, "bandwidth": 100})
        links.append({"endpoint_a_hostname": "switch_1", "endpoint_a_port": 2, "endpoint_b_hostname": "client_2", "endpoint_b_port": 1, "bandwidth": 100})
        links.append({"endpoint_a_hostname": hub, "endpoint_a_port": 2, "endpoint_b_hostname": "server_1", "endpoint_b_port": 1, "bandwidth": 100})
        if kind == "firewalled":
            links.append({"endpoint_a_hostname": hub, "endpoint_a_port": 3, "endpoint_b_hostname": "dmz_1", "endpoint_b_port": 1, "bandwidth": 100})

    acts = [("do-nothing", {})]
    acts += host_actions("client_1")
    acts += host_actions("server_1", services=("web-server", "database-service"), apps=(), folder="docs", file="a.txt") if False else []
    acts += missing_target_actions("client_1")
    # pre-installed software that the scenario does not configure (no target url / no server address)
    acts.append(("node-application-execute", {"node_name": "server_1", "application_name": "web-browser"}))
    acts.append(("node-application-execute", {"node_name": "client_2", "application_name": "data-manipulation-bot"}))
    if kind == "routed":
        acts += router_actions("router_1")
    elif kind == "firewalled":
        acts += firewall_actions("firewall_1")
    # removals of applications that share their (port, protocol) key with other software of the node (nmap and the
    # data-manipulation-bot both have no port; database-client and a run-time installed dos-bot both use 5432/tcp)
    acts.append(("node-application-remove", {"node_name": "client_2", "application_name": "data-manipulation-bot"}))
    acts.append(("node-application-remove", {"node_name": "client_2", "application_name": "nmap"}))
    acts.append(("node-application-remove", {"node_name": "client_1", "application_name": "database-client"}))
    acts.append(("node-application-remove", {"node_name": "client_1", "application_name": "nmap"}))
    # the application the GREEN agent uses and is rewarded for, removed by the defender (possibly in the very step it is used)
    acts.append(("node-application-remove", {"node_name": "client_2", "application_name": "web-browser"}))
    # actions whose options carry addresses (they end up in the per-episode action log that reset() writes)
    acts.append(("configure-dos-bot", {"node_name": "client_1", "target_ip_address": lan_b + ".10", "max_sessions": 3}))
    acts.append(("node-nmap-ping-scan", {"source_node": "client_1", "target_ip_address": lan_b + ".10", "show": False}))
    acts += list(extra_actions)
    action_map = {i: {"action": a, "options": o} for i, (a, o) in enumerate(acts)}
    if action_order == "desc":  # same numbering, listed in another order (legal: the schema only wants every number present)
        action_map = dict(sorted(action_map.items(), key=lambda kv: -kv[0]))
    elif action_order == "shuffled":
        keys = list(action_map)
        keys = keys[1::2] + keys[0::2]
        action_map = {k: action_map[k] for k in keys}

    obs_hosts = [
        {"hostname": "client_1", "services": [{"service_name": "dns-client"}], "applications": [{"application_name": "web-browser"}], "folders": [{"folder_name": "docs", "files": [{"file_name": "a.txt"}]}]},
        {"hostname": "server_1", "services": [{"service_name": "web-server"}, {"service_name": "database-service"}]},
        {"hostname": "client_2"},
    ]
    nodes_opts = {
        "hosts": obs_hosts, "num_services": 2, "num_applications": 1, "num_folders": 1, "num_files": 1, "num_nics": 1,
        "include_num_access": True, "include_nmne": True, "monitored_traffic": {"icmp": ["NONE"], "tcp": ["DNS", "HTTP"]},
        # the four id lists have pairwise different lengths (4, 5, 2, 3): a space leaf sized from the wrong list cannot go unnoticed
        "ip_list": ["192.168.1.2", "192.168.1.3", "192.168.2.10", "10.0.0.1"], "wildcard_list": ["0.0.0.1", "0.0.0.255", "0.0.255.255", "0.255.255.255", "0.0.0.3"],
        "port_list": ["HTTP", "DNS"], "protocol_list": ["ICMP", "TCP", "UDP"],
        "num_rules": 4, "num_ports": 2,
    }
    if obs_variant == "surplus":
        obs_hosts[0] = {
            "hostname": "client_1",
            "services": [{"service_name": "dns-client"}, {"service_name": "ftp-client"}, {"service_name": "ntp-client"}],
            "applications": [{"application_name": "web-browser"}, {"application_name": "database-client"}],
            "folders": [{"folder_name": "docs", "files": [{"file_name": "a.txt"}, {"file_name": "b.txt"}]}, {"folder_name": "downloads", "files": [{"file_name": "c.txt"}]}],
        }
    elif obs_variant == "padded":
        nodes_opts.update({"num_services": 3, "num_applications": 2, "num_folders": 2, "num_files": 2, "num_nics": 2})
    elif obs_variant == "no_users":
        nodes_opts["include_users"] = False
    if kind == "routed":
        nodes_opts["routers"] = [{"hostname": "router_1"}]
    elif kind == "firewalled":
        nodes_opts["firewalls"] = [{"hostname": "firewall_1"}]
    link_refs = [f"{l['endpoint_a_hostname']}:eth-{l['endpoint_a_port']}<->{l['endpoint_b_hostname']}:eth-{l['endpoint_b_port']}" for l in links]
    agents = []
    if with_green:
        agents.append(
            {
                "ref": "green_1", "team": "GREEN", "type": "periodic-agent",
                "action_space": {"action_map": {0: {"action": "do-nothing", "options": {}}, 1: {"action": "node-application-execute", "options": {"node_name": "client_2", "application_name": "web-browser"}}}},
                "agent_settings": {"possible_start_nodes": ["client_2"], "target_application": "web-browser", "start_step": 0 if green_busy else 1, "frequency": 1 if green_busy else 2, "variance": 0 if green_busy else 1},
                "reward_function": {"reward_components": [{"type": "webpage-unavailable-penalty", "weight": 0.25, "options": {"node_hostname": "client_2"}}]},
            }
        )
    if with_red:
        agents.append(
            {
                "ref": "red_1", "team": "RED", "type": "red-database-corrupting-agent",
                "action_space": {"action_map": {0: {"action": "do-nothing", "options": {}}, 1: {"action": "node-application-execute", "options": {"node_name": "client_2", "application_name": "data-manipulation-bot"}}}},
                "agent_settings": {"possible_start_nodes": ["client_2"], "target_application": "data-manipulation-bot", "start_step": 2, "frequency": 2, "variance": 0},
            }
        )
    rew = [
        {"type": "database-file-integrity", "weight": 0.4, "options": {"node_hostname": "server_1", "folder_name": "database", "file_name": "database.db"}},
        {"type": "web-server-404-penalty", "weight": 0.3, "options": {"node_hostname": "server_1", "service_name": "web-server"}},
        {"type": "action-penalty", "weight": 1.0, "options": {"action_penalty": -0.25, "do_nothing_penalty": 0.0}},
    ]
    if with_green:
        rew.append({"type": "shared-reward", "weight": 1.0, "options": {"agent_name": "green_1"}})
    agents.append(
        {
            "ref": "defender", "team": "BLUE", "type": "proxy-agent",
            "observation_space": {"type": "custom", "options": {"components": [
                {"type": "nodes", "label": "NODES", "options": nodes_opts},
                {"type": "links", "label": "LINKS", "options": {"link_references": link_refs}},
                {"type": "none", "label": "ICS", "options": {}},
            ]}},
            "action_space": {"action_map": action_map},
            "reward_function": {"reward_components": rew},
            "agent_settings": {"flatten_obs": flatten_obs, "action_masking": action_masking},
        }
    )
    return {
        "metadata": {"version": 3.0},
        "io_settings": {"save_agent_actions": bool(save_actions), "save_step_metadata": False, "save_pcap_logs": False, "save_sys_logs": False, "save_agent_logs": False},
        "game": {"max_episode_length": max_episode_length, "ports": ["ARP", "DNS", "HTTP", "POSTGRES_SERVER", "FTP"], "protocols": ["ICMP", "TCP", "UDP"], "seed": seed,
                 "thresholds": {"nmne": {"high": 10, "medium": 5, "low": 0}, "file_access": {"high": 10, "medium": 5, "low": 2}, "app_executions": {"high": 5, "medium": 3, "low": 2}}},
        "agents": agents,
        "simulation": {"network": {"nodes": nodes, "links": links}},
    }


# --------------------------------------------------------------------------------------------------------------
# pure-Python membership walker over a real gymnasium space (space.contains is numpy/C)
# --------------------------------------------------------------------------------------------------------------
def space_violations(space, obs, path="obs"):
    """Return a list of human-readable reasons why obs is not in space ([] = member). Works on symbolic ints."""
    from gymnasium import spaces

    out = []
    if isinstance(space, spaces.Dict):
        if not isinstance(obs, dict):
            return [f"{path}: expected dict, got {type(obs).__name__}"]
        sk, ok = list(space.spaces.keys()), list(obs.keys())
        if set(sk) != set(ok):
            out.append(f"{path}: keys differ: space-only {sorted(map(str, set(sk) - set(ok)))}, obs-only {sorted(map(str, set(ok) - set(sk)))}")
        for k in sk:
            if k in obs:
                out.extend(space_violations(space.spaces[k], obs[k], f"{path}[{k!r}]"))
        return out
    if isinstance(space, spaces.Discrete):
        if isinstance(obs, bool) or not _is_int(obs):
            return [f"{path}: Discrete({space.n}) got non-int {type(obs).__name__}"]
        lo = int(space.start)
        if not (lo <= obs):
            return [f"{path}: below Discrete start {lo}"]
        if not (obs < lo + int(space.n)):
            return [f"{path}: value not below {lo + int(space.n)} (Discrete({space.n}))"]
        return []
    if isinstance(space, spaces.MultiBinary):
        try:
            vals = list(obs)
        except TypeError:
            return [f"{path}: MultiBinary expects a sequence"]
        if len(vals) != int(space.n):
            return [f"{path}: MultiBinary length {len(vals)} != {space.n}"]
        for i, v in enumerate(vals):
            if not ((v == 0) or (v == 1)):
                out.append(f"{path}[{i}]: not binary")
        return out
    if isinstance(space, spaces.MultiDiscrete):
        vals = list(obs)
        if len(vals) != len(space.nvec):
            return [f"{path}: MultiDiscrete length"]
        for i, (v, n) in enumerate(zip(vals, space.nvec)):
            if not (0 <= v) or not (v < int(n)):
                out.append(f"{path}[{i}]: outside MultiDiscrete({int(n)})")
        return out
    if isinstance(space, spaces.Box):
        import numpy as np

        arr = np.asarray(obs)
        if arr.shape != space.shape:
            return [f"{path}: Box shape {arr.shape} != {space.shape}"]
        if not (np.all(arr >= space.low) and np.all(arr <= space.high)):
            return [f"{path}: outside Box bounds"]
        return []
    if isinstance(space, spaces.Tuple):
        if len(obs) != len(space.spaces):
            return [f"{path}: tuple length"]
        for i, (s, o) in enumerate(zip(space.spaces, obs)):
            out.extend(space_violations(s, o, f"{path}[{i}]"))
        return out
    return [f"{path}: unsupported space {type(space).__name__}"]


def _is_int(x) -> bool:
    import numbers

    try:
        import numpy as np

        if isinstance(x, np.integer):
            return True
    except Exception:
        pass
    return isinstance(x, numbers.Integral)


def mini_action_index(kind: str, action: str, **opts) -> int:
    """Number of the (first) entry `action` with options `opts` in the defender's action map of mini_scenario(kind)."""
    cfg = mini_scenario(kind)
    for ag in cfg["agents"]:
        am = ag.get("action_space", {}).get("action_map", {})
        for i, ent in am.items():
            if ent["action"] == action and all(ent["options"].get(k) == v for k, v in opts.items()):
                return int(i)
    raise KeyError((kind, action, opts))

"""Builders for real PrimAITE objects + environment stubs shared by the harnesses."""
from __future__ import annotations

import contextlib
import copy
import logging
import re
import warnings
from typing import Any, Dict, List, Optional, Tuple

warnings.filterwarnings("ignore")

from vlib import chdriver  # noqa: E402


@contextlib.contextmanager
def concrete():
    """Run the body untraced under CrossHair (concrete construction code); no-op in plain replay."""
    if chdriver._SYMBOLIC_MODE:
        from crosshair.core import NoTracing

        with NoTracing():
            yield
    else:
        yield


_quiet_done = False


def quiet():
    """Stub logging/formatting sinks with empty bodies (their output never feeds behaviour)."""
    global _quiet_done
    if _quiet_done:
        return
    _quiet_done = True
    logging.disable(logging.CRITICAL)
    from primaite.simulator.system.core.sys_log import SysLog
    from primaite.simulator.system.core.packet_capture import PacketCapture

    def _noop(self, *a, **k):
        return None

    for name in ("debug", "info", "warning", "error", "critical"):
        if hasattr(SysLog, name):
            setattr(SysLog, name, _noop)
    for name in ("capture_inbound", "capture_outbound", "capture"):
        if hasattr(PacketCapture, name):
            setattr(PacketCapture, name, _noop)
    try:
        from primaite.game.agent.agent_log import AgentLog

        for name in ("debug", "info", "warning", "error", "critical"):
            if hasattr(AgentLog, name):
                setattr(AgentLog, name, _noop)
    except Exception:
        pass


def mk_node(ntype: str, hostname: str, **cfg):
    from primaite.simulator.network.hardware.base import Node
    import primaite.simulator.network.hardware.nodes.host.computer  # noqa
    import primaite.simulator.network.hardware.nodes.host.server  # noqa
    import primaite.simulator.network.hardware.nodes.network.switch  # noqa
    import primaite.simulator.network.hardware.nodes.network.router  # noqa
    import primaite.simulator.network.hardware.nodes.network.firewall  # noqa
    import primaite.simulator.network.hardware.nodes.network.wireless_router  # noqa

    cls = Node._registry[ntype]
    c = {"type": ntype, "hostname": hostname}
    c.update(cfg)
    return cls.from_config(config=c)


def mk_host(ntype: str, hostname: str, ip: str, gw: Optional[str] = None, **cfg):
    c = dict(ip_address=ip, subnet_mask="255.255.255.0")
    if gw:
        c["default_gateway"] = gw
    c.update(cfg)
    return mk_node(ntype, hostname, **c)


def new_sim():
    from primaite.simulator.sim_container import Simulation

    return Simulation()


UUID_RE = re.compile(r"[0-9a-f]{8}-[0-9a-f]{4}-[0-9a-f]{4}-[0-9a-f]{4}-[0-9a-f]{12}")
MAC_RE = re.compile(r"^([0-9a-f]{2}:){5}[0-9a-f]{2}$")


def normalise(state: Any, _map: Optional[Dict[str, str]] = None) -> Any:
    """uuid/MAC-normalise a describe_state() tree (identifiers are opaque)."""
    if _map is None:
        _map = {}

    def nm(s: str) -> str:
        if UUID_RE.fullmatch(s) or MAC_RE.fullmatch(s):
            if s not in _map:
                _map[s] = f"<id{len(_map)}>"
            return _map[s]
        return s

    if isinstance(state, dict):
        return {nm(k) if isinstance(k, str) else k: normalise(v, _map) for k, v in state.items()}
    if isinstance(state, (list, tuple)):
        return [normalise(v, _map) for v in state]
    if isinstance(state, str):
        return nm(state)
    return state


def snap(component) -> Any:
    """Deep copy of describe_state()."""
    return copy.deepcopy(component.describe_state())


class CallLog:
    """Wrap methods on instances (or classes) to record that they were entered."""

    def __init__(self):
        self.calls: List[Tuple[str, Any]] = []
        self._undo = []

    def wrap(self, obj, attr: str, tag: str):
        orig = getattr(obj, attr)
        log = self.calls

        def wrapper(*a, **k):
            log.append((tag, None))
            return orig(*a, **k)

        try:
            object.__setattr__(obj, attr, wrapper)
        except Exception:
            setattr(obj, attr, wrapper)
        self._undo.append((obj, attr))
        return wrapper

    def count(self, tag: str) -> int:
        return sum(1 for t, _ in self.calls if t == tag)

    def clear(self):
        del self.calls[:]

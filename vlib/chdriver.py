"""Engine S: CrossHair 0.0.110 driven as a library over harness functions that run the real PrimAITE code.

A harness is a plain Python function ``h(**symbolic, **fixed)``; its annotated parameters that are not in
``fixed`` become CrossHair symbolic values.  Inside it uses :func:`assume`, :func:`check`, :func:`cover`.
``explore`` runs CrossHair's path exploration (the same loop as ``crosshair.core.explore_paths``) until the path
tree is exhausted (verdict CONFIRMED = holds for every value of the symbolic parameters), a path violates
``check`` (REFUTED, with concrete arguments realised from the solver model) or the budget runs out (INCONCLUSIVE).
"""
from __future__ import annotations

import inspect
import json
import logging
import os
import sys
import time
import traceback
import warnings
from typing import Any, Callable, Dict, List, Optional

warnings.filterwarnings("ignore")


class PropertyViolated(Exception):
    """Raised by check() when the property's assertion fails on the current path."""


class HarnessError(Exception):
    """The harness itself is broken (not the code under test)."""


OPAQUE_SYMBOLIC_FORMAT = False  # set by a harness module (see _vformat); recorded in its ASSUMPTIONS
_COVER: set = set()
_SYMBOLIC_MODE = False


def assume(cond) -> None:
    """Prune the current path unless cond holds (CrossHair's assume)."""
    if not cond:
        if _SYMBOLIC_MODE:
            from crosshair.util import IgnoreAttempt

            raise IgnoreAttempt("assume")
        raise AssumptionFailed("assumption failed in concrete replay")


class AssumptionFailed(Exception):
    pass


def check(cond, msg="") -> None:
    """Assert the property on this path. msg may be a callable (built only on failure - formatting a symbolic
    value realises it, which would split the path for no reason)."""
    if not cond:
        if callable(msg):
            try:
                msg = msg()
            except Exception as e:  # rendering must never hide the violation itself
                msg = f"<violation message could not be rendered: {type(e).__name__}>"
        raise PropertyViolated(msg if isinstance(msg, str) else str(msg))


def fail(msg: str) -> None:
    raise PropertyViolated(msg)


def cover(label: str) -> None:
    _COVER.add(label)


def all_of(*conds):
    """Conjunction of (possibly symbolic) booleans as ONE solver term: a single fork instead of one per conjunct."""
    if not _SYMBOLIC_MODE:
        return all(conds)
    import z3
    from crosshair.core import NoTracing
    from crosshair.libimpl.builtinslib import SymbolicBool

    with NoTracing():
        terms = []
        for c in conds:
            if isinstance(c, SymbolicBool):
                terms.append(c.var)
            elif isinstance(c, bool):
                if not c:
                    return False
            else:
                terms = None
                break
        if terms is not None:
            if not terms:
                return True
            return SymbolicBool(z3.And(*terms))
    return all(conds)


def any_of(*conds):
    """Disjunction of (possibly symbolic) booleans as ONE solver term."""
    if not _SYMBOLIC_MODE:
        return any(conds)
    import z3
    from crosshair.core import NoTracing
    from crosshair.libimpl.builtinslib import SymbolicBool

    with NoTracing():
        terms = []
        for c in conds:
            if isinstance(c, SymbolicBool):
                terms.append(c.var)
            elif isinstance(c, bool):
                if c:
                    return True
            else:
                terms = None
                break
        if terms is not None:
            if not terms:
                return False
            return SymbolicBool(z3.Or(*terms))
    return any(conds)


def rng(x, lo, hi):
    """lo <= x <= hi as one symbolic boolean."""
    return all_of(lo <= x, x <= hi)


def concretize(x):
    """Realise a symbolic value (forks once per feasible value): use before C-level boundaries (pydantic-core)."""
    if not _SYMBOLIC_MODE:
        return x
    from crosshair.core import realize

    return realize(x)


def pick(seq, idx):
    """Symbolic choice of an element of a concrete sequence: forks on idx by bisection (log2(n) solver decisions per
    path instead of n)."""
    n = len(seq)
    assume(rng(idx, 0, n - 1))
    lo, hi = 0, n  # invariant: lo <= idx < hi
    while hi - lo > 1:
        mid = (lo + hi) // 2
        if idx < mid:
            hi = mid
        else:
            lo = mid
    return seq[lo]


def pick_int(idx, lo: int, hi: int) -> int:
    """Concrete value of a symbolic int known to lie in [lo, hi] (bisection fork)."""
    return pick(range(lo, hi + 1), idx - lo)


# --------------------------------------------------------------------------------------------------------------
# shims layered on top of CrossHair's own patches
# --------------------------------------------------------------------------------------------------------------
_shim_installed = False


def _install_shims():
    global _shim_installed
    if _shim_installed:
        return
    _shim_installed = True
    import crosshair.core as core
    from crosshair.core import COMPOSITE_TRACER, NoTracing, ResumedTracing
    from crosshair.util import CrossHairValue
    import pydantic

    base_str = pydantic.BaseModel.__str__
    base_repr = pydantic.BaseModel.__repr__

    def _vformat(obj, format_spec=""):
        with NoTracing():
            sym = isinstance(obj, CrossHairValue) or isinstance(format_spec, CrossHairValue)
            model_plain = False
            if not sym and isinstance(obj, pydantic.BaseModel):
                t = type(obj)
                model_plain = t.__str__ is base_str and t.__format__ is object.__format__
            if not sym and isinstance(obj, (str, int, float, bool, type(None))):
                return format(obj, format_spec)
        if not sym and isinstance(obj, (list, tuple, dict, set, frozenset)):
            return format(obj, format_spec)  # containers may hold symbolic values: CrossHair's own format realises them
        if sym:
            if OPAQUE_SYMBOLIC_FORMAT:
                # harness-declared: in the code under test f-strings of symbolic values only build log/debug text.
                # Rendering a placeholder avoids realising (enumerating) the value just to print it.
                return "<sym>"
            return format(obj, format_spec)  # next layer: CrossHair's own _format
        if model_plain:
            return "<" + type(obj).__name__ + ">"
        return type(obj).__format__(obj, format_spec)

    def _vint(*a, **kw):
        if len(a) == 1 and not kw:
            val = a[0]
            with NoTracing():
                plain_obj = not isinstance(val, (CrossHairValue, str, bytes, int, float)) and hasattr(
                    type(val), "__int__"
                )
            if plain_obj:
                return type(val).__int__(val)
        return int(*a, **kw)

    # floats: only the real-number model (the IEEE model is a 2%-probability alternative representation that z3 cannot
    # decide for unbounded operands; IEEE behaviour of the arithmetic kernels is decided by Engine T instead)
    import crosshair.libimpl.builtinslib as _bl

    _bl._PYTYPE_TO_WRAPPER_TYPE[float] = ((_bl.RealBasedSymbolicFloat, 1.0),)

    layer = {format: _vformat, int: _vint}
    orig_enter, orig_exit = core.Patched.__enter__, core.Patched.__exit__

    def _enter(self):
        r = orig_enter(self)
        COMPOSITE_TRACER.patching_module.add(layer)
        return r

    def _exit(self, *a):
        COMPOSITE_TRACER.patching_module.pop(layer)
        return orig_exit(self, *a)

    core.Patched.__enter__ = _enter
    core.Patched.__exit__ = _exit


_QUERIES = {"n": 0, "t": 0.0}


def _install_query_counter():
    import crosshair.statespace as ss

    if getattr(ss, "_vcounted", False):
        return
    orig = ss.solver_is_sat

    def counted(solver, *exprs):
        t0 = time.perf_counter()
        try:
            return orig(solver, *exprs)
        finally:
            _QUERIES["n"] += 1
            _QUERIES["t"] += time.perf_counter() - t0

    ss.solver_is_sat = counted
    ss._vcounted = True


def _jsonable(v):
    try:
        json.dumps(v)
        return v
    except Exception:
        return repr(v)


def _mk_args(sig: inspect.Signature, space) -> inspect.BoundArguments:
    """Like crosshair.core.gen_args but without the 'premature realisation' search heuristic for int/bool
    (it only adds redundant concrete paths; we want the path tree of the harness itself)."""
    from crosshair.core import proxy_for_type
    from crosshair.libimpl.builtinslib import SymbolicBool, SymbolicInt

    ba = sig.bind_partial()
    for p in sig.parameters.values():
        name = p.name + space.uniq()
        if p.annotation is int:
            v: Any = SymbolicInt(name, int)
        elif p.annotation is bool:
            v = SymbolicBool(name, bool)
        else:
            v = proxy_for_type(p.annotation, name, allow_subtypes=False)
        ba.arguments[p.name] = v
    return ba


def _peek(space, args: Dict[str, Any]) -> Dict[str, Any]:
    """Read a witness for the current path from the solver model WITHOUT adding decisions to the path tree."""
    import z3

    out: Dict[str, Any] = {}
    try:
        if space.solver.check() != z3.sat:
            return {"_": "no model"}
        model = space.solver.model()
    except Exception as e:  # pragma: no cover
        return {"_": "model unavailable: " + type(e).__name__}
    for k, v in args.items():
        var = getattr(v, "var", None)
        if var is None or not isinstance(var, z3.ExprRef):
            out[k] = _jsonable(v) if isinstance(v, (int, float, str, bool, type(None))) else "<" + type(v).__name__ + ">"
            continue
        try:
            val = model.eval(var, model_completion=True)
            if z3.is_int_value(val):
                out[k] = val.as_long()
            elif z3.is_true(val) or z3.is_false(val):
                out[k] = z3.is_true(val)
            elif z3.is_rational_value(val):
                out[k] = float(val.numerator_as_long()) / float(val.denominator_as_long())
            else:
                out[k] = str(val)
        except Exception:
            out[k] = "<?>"
    return out


def explore(
    fn: Callable,
    fixed: Dict[str, Any],
    timeout: float,
    per_path_timeout: float = 30.0,
    max_samples: int = 3,
    extra_assume: Optional[Callable[[Dict[str, Any]], Any]] = None,
) -> Dict[str, Any]:
    """Symbolically explore fn over its non-fixed parameters. Returns a result dict."""
    global _SYMBOLIC_MODE
    import crosshair.core_and_libs  # noqa: F401  (registers patches)
    from crosshair.core import (
        COMPOSITE_TRACER,
        ExceptionFilter,
        NoTracing,
        Patched,
        ResumedTracing,
        deep_realize,
        gen_args,
    )
    from crosshair.condition_parser import condition_parser
    from crosshair.copyext import CopyMode, deepcopyext
    from crosshair.options import DEFAULT_OPTIONS
    from crosshair.statespace import (
        CallAnalysis,
        NotDeterministic,
        RootNode,
        StateSpace,
        StateSpaceContext,
        VerificationStatus,
    )
    from crosshair.util import IgnoreAttempt, UnexploredPath

    _install_shims()
    _install_query_counter()
    logging.disable(logging.CRITICAL)

    sig_full = inspect.signature(fn)
    import typing

    hints = typing.get_type_hints(fn)
    # symbolic = annotated parameters WITHOUT a default that are not pinned by `fixed`; parameters with a default
    # are configuration knobs and keep their default unless pinned
    sym_params = [
        p.replace(annotation=hints.get(n, p.annotation))
        for n, p in sig_full.parameters.items()
        if n not in fixed and p.default is inspect.Parameter.empty
    ]
    for p in sym_params:
        if p.annotation is inspect.Parameter.empty:
            raise HarnessError(f"symbolic parameter {p.name} of {fn.__name__} lacks a type annotation")
    sig = inspect.Signature(sym_params)

    search_root = RootNode()
    t_start = time.process_time()
    w_start = time.time()
    res: Dict[str, Any] = {
        "paths": 0,
        "confirmed_paths": 0,
        "ignored_paths": 0,
        "unknown_paths": 0,
        "unknown_reasons": {},
        "status": "INCONCLUSIVE",
        "cex": None,
        "samples": [],
        "cover": [],
        "exhausted": False,
        "error": None,
    }
    cover_all: set = set()
    unknown_witnesses: List[Dict[str, Any]] = []
    _QUERIES["n"] = 0
    _QUERIES["t"] = 0.0
    _SYMBOLIC_MODE = True
    try:
        while True:
            itr_start = time.process_time()
            if itr_start - t_start > timeout:
                res["stop"] = "timeout"
                break
            res["paths"] += 1
            # the first path pays the one-off costs (imports, pydantic model completion, caches): under a loaded machine
            # it alone can exceed the per-path budget, which would end the whole search with an unknown root
            ppt = per_path_timeout * (6 if res["paths"] == 1 else 1)
            space = StateSpace(
                execution_deadline=itr_start + ppt,
                model_check_timeout=per_path_timeout / 2,
                search_root=search_root,
            )
            _COVER.clear()
            status = None
            with condition_parser(DEFAULT_OPTIONS.analysis_kind), Patched(), COMPOSITE_TRACER, NoTracing(), StateSpaceContext(
                space
            ):
                try:
                    pre_args = _mk_args(sig, space)
                    args = deepcopyext(pre_args, CopyMode.REGULAR, {})
                    kwargs = dict(args.arguments)
                    kwargs.update(fixed)
                    with ExceptionFilter() as efilter, ResumedTracing():
                        if extra_assume is not None:
                            assume(extra_assume(kwargs))
                        fn(**kwargs)
                    if efilter.user_exc is not None:
                        exc, stack = efilter.user_exc
                        if isinstance(exc, NotDeterministic):
                            raise exc
                        concrete = deep_realize(dict(pre_args.arguments))
                        concrete = {k: _jsonable(v) for k, v in concrete.items()}
                        kind = "violation" if isinstance(exc, PropertyViolated) else "exception"
                        try:
                            with ResumedTracing():
                                emsg = str(exc)
                            emsg = deep_realize(emsg)
                        except Exception:
                            emsg = "<unprintable>"
                        res["cex"] = {
                            "args": concrete,
                            "kind": kind,
                            "exc_type": type(exc).__name__,
                            "message": str(emsg)[:2000],
                            "trace": "".join(stack.format()[-12:])[-4000:] if kind == "exception" else "",
                        }
                        res["status"] = "REFUTED"
                        status = VerificationStatus.REFUTED
                    elif getattr(efilter, "ignore", False):
                        res["ignored_paths"] += 1
                        status = None
                    else:
                        status = VerificationStatus.CONFIRMED
                        res["confirmed_paths"] += 1
                        cover_all |= _COVER
                        if len(res["samples"]) < max_samples:
                            res["samples"].append(_peek(space, dict(pre_args.arguments)))
                except IgnoreAttempt:
                    res["ignored_paths"] += 1
                    status = None
                except UnexploredPath as e:
                    res["unknown_paths"] += 1
                    key = type(e).__name__ + ": " + str(e)[:120]
                    res["unknown_reasons"][key] = res["unknown_reasons"].get(key, 0) + 1
                    status = VerificationStatus.UNKNOWN
                    # concolic fallback: keep a concrete witness of this (unsupported / timed-out) path; it is run
                    # concretely after the exploration so that a violation on it is not lost with the path
                    if len(unknown_witnesses) < 6:
                        try:
                            w = deep_realize(dict(pre_args.arguments))
                            unknown_witnesses.append({k: _jsonable(v) for k, v in w.items()})
                        except BaseException:
                            pass
                if space.status_cap is not None:
                    # CrossHair caps the verdict when a float was modelled as a real. We report that explicitly
                    # (float_as_real) instead: the IEEE behaviour of the kernels is decided by Engine T.
                    res["float_as_real"] = True
                    space.status_cap = None
                _analysis, exhausted = space.bubble_status(CallAnalysis(status))
            if res["status"] == "REFUTED":
                break
            if exhausted:
                res["exhausted"] = True
                break
        if res["status"] != "REFUTED" and res["exhausted"]:
            if res["unknown_paths"] == 0:
                res["status"] = "CONFIRMED"
            else:
                res["status"] = "INCONCLUSIVE"
    except BaseException as e:  # NotDeterministic, internal errors
        res["status"] = "ERROR"
        res["error"] = type(e).__name__ + ": " + str(e)[:500] + "\n" + traceback.format_exc()[-3000:]
    finally:
        _SYMBOLIC_MODE = False
    if res["status"] not in ("REFUTED", "ERROR") and unknown_witnesses:
        res["unknown_witnesses_run_concretely"] = 0
        for w in unknown_witnesses:
            kw = dict(w)
            kw.update(fixed)
            try:
                if extra_assume is not None and not extra_assume(kw):
                    continue
                res["unknown_witnesses_run_concretely"] += 1
                fn(**kw)
            except PropertyViolated as e:
                res["status"] = "REFUTED"
                res["cex"] = {
                    "args": w, "kind": "violation", "exc_type": "PropertyViolated", "message": str(e)[:2000], "trace": "",
                    "note": "found by running the concrete witness of a path the symbolic engine could not complete",
                }
                break
            except (AssumptionFailed, Exception):
                continue
    res["cover"] = sorted(cover_all)
    res["cpu_s"] = round(time.process_time() - t_start, 3)
    res["wall_s"] = round(time.time() - w_start, 3)
    res["smt_queries"] = _QUERIES["n"]
    res["smt_time_s"] = round(_QUERIES["t"], 3)
    res["symbolic_params"] = [p.name + ":" + getattr(p.annotation, "__name__", str(p.annotation)) for p in sym_params]
    return res


def replay(fn: Callable, kwargs: Dict[str, Any]) -> Dict[str, Any]:
    """Run the harness concretely (no CrossHair, no shims) on kwargs."""
    logging.disable(logging.CRITICAL)
    _COVER.clear()
    try:
        fn(**kwargs)
        return {"reproduced": False, "outcome": "passed", "cover": sorted(_COVER)}
    except PropertyViolated as e:
        return {"reproduced": True, "outcome": "violation", "message": str(e)[:2000]}
    except AssumptionFailed as e:
        return {"reproduced": False, "outcome": "assumption_failed", "message": str(e)}
    except Exception as e:
        return {
            "reproduced": False,
            "outcome": "exception",
            "message": type(e).__name__ + ": " + str(e)[:1000],
            "trace": traceback.format_exc()[-3000:],
        }

"""What MANIFEST.json claims, per property (source for bin/mkmanifest)."""

TECH_S = "bounded symbolic execution of the real code (CrossHair+z3), counterexamples replayed concretely"

NOTES = (
    "Solver-based checking of the real code only. Every 'holds' means: for every value of the symbolic inputs within "
    "the bounds recorded in the evidence file. INCONCLUSIVE jobs are listed in the evidence and never counted as "
    "success. Exit 3 = harness error (never a property verdict)."
)

NOT_APPLICABLE = {
    "C03": "quantifies over OS processes, PYTHONHASHSEED, wall-clock and logging configuration: the deciding phenomena "
    "(set/dict iteration order under hash randomisation, datetime.now() flowing through pydantic-core's serializer) "
    "live in compiled CPython/pydantic-core code that neither CrossHair nor the AST->SMT translator can make symbolic",
}

CLAIMS = {
    "C12": {
        "text": "Bounded symbolic model checking of the real Node power code through the request API: (a) every "
        "sequence of n operations from the real initial state and (b) one operation from every pre-state of a written "
        "representation invariant followed by ticks until the node settles, with start-up/shut-down durations as "
        "solver variables, compared step by step with a reference state machine; the path tree is exhausted.",
        "note": "Bounds: durations 0..dmax, n_ops as in evidence.bounds; node types per tier. Trusted: CrossHair/z3, "
        "the logging stubs and format shim, the invariant used by the inductive harness (cross-checked by the bounded "
        "runs from the real initial state), the reference FSM.",
        "technique": TECH_S,
    },
}

"""What MANIFEST.json claims, per property (source for bin/mkmanifest)."""

TECH_S = "bounded symbolic execution of the real code (CrossHair+z3), counterexamples replayed concretely"

NOTES = (
    "Solver-based checking of the real code only. Every 'holds' means: for every value of the symbolic inputs within "
    "the bounds recorded in the evidence file. INCONCLUSIVE jobs are listed in the evidence and never counted as "
    "success. Exit 3 = harness error (never a property verdict)."
)

NOT_APPLICABLE = {
    "C03": "quantifies over OS processes, PYTHONHASHSEED, wall-clock and logging configuration: the deciding phenomena "
    "(set/dict iteration order under hash randomisation, datetime.now() flowing through pydantic-core's serializer) "
    "live in compiled CPython/pydantic-core code that neither CrossHair nor the AST->SMT translator can make symbolic",
}

CLAIMS = {
    "C12": {
        "text": "Bounded symbolic model checking of the real Node power code through the request API: (a) every "
        "sequence of n operations from the real initial state and (b) one operation from every pre-state of a written "
        "representation invariant followed by ticks until the node settles, with start-up/shut-down durations as "
        "solver variables, compared step by step with a reference state machine; the operations include, besides requests, ticks and pings in both directions, the software's and interfaces' own API (Service.start, Application.run, NIC.enable called directly), which must do nothing on a node that is not ON; file-system work pending when the node goes down (a timed folder scan) does not advance while it stays down; the path tree is exhausted.",
        "note": "Bounds: durations 0..dmax, n_ops as in evidence.bounds; node types per tier. Trusted: CrossHair/z3, "
        "the logging stubs and format shim, the invariant used by the inductive harness (cross-checked by the bounded "
        "runs from the real initial state), the reference FSM.",
        "technique": TECH_S,
    },
    "C07": {
        "engine": "symex+py2smt",
        "text": "Compositional bounded symbolic checking of the real ACL code: L1 the masked-range kernel translated "
        "from source to BV32 and decided by z3 for all 2^96 inputs; L2 ACLRule.permit_frame_check on a real rule with "
        "every field symbolic (specified or not, addresses/ports as solver integers) against the reference 'all "
        "specified fields match'; L3 AccessControlList.is_permitted/add_rule/remove_rule on a real list with oracle "
        "matchers: lowest matching position decides, else the list's implicit action (given to the constructor or assigned afterwards), exactly one hit counter moves, edits touch only the addressed "
        "slot (Python API and request API), every position -2..max+1.",
        "note": "Bounds: up to 3 (quick) / 5 (thorough) populated slots; 6 field combinations for edits (incl. differing source / destination wildcards), 0-2 near-identical rules already present. Trusted: "
        "CrossHair/z3, the lemma composition, the recording oracle standing in for the kernel in L2, the BV model of "
        "int(IPv4Address). Scenario-file loading of rules is checked under C20, not here.",
        "technique": "symbolic execution of the real code (CrossHair+z3) + AST-to-SMT translation of the address kernel (z3 BV32), counterexamples replayed",
    },
    "C18": {
        "engine": "symex+py2smt",
        "text": "Engine S: real Link/NIC/SwitchPort objects, frame sizes and bandwidth as unbounded solver numbers, the "
        "receiver stubbed so that (under solver-chosen flags) it replies over the same link before returning and "
        "accepts or rejects; after every send current_load and the data actually carried are <= bandwidth, the load "
        "is zero after pre_timestep, nothing crosses a link with a disabled end; frames grow by solver-chosen amounts when the sender and the receiver stamp them (as the real Frame does); within one tick an end may be disabled and re-enabled (wired) or leave and re-join the channel (wireless) without the tick's budget being renewed; a harness with REAL ARP/ICMP frames and the bandwidth as the only solver value pins the frame model to the real serialisation. Engine T: can_transmit_frame and "
        "transmit_frame translated from source to FP64 and decided for all finite doubles (admission formula; load "
        "after accounting stays in [0,bw] with nested admitted traffic).",
        "note": "Bounds: 2 top-level sends with nested replies to depth 2 (quick); FakeFrame instead of Frame in all but link_real_frames (size comes from pydantic-core's serializer; there the clock and the random ICMP identifier are stubbed to constants); the wireless channel (AirSpace) is checked on two real "
        "wireless routers with the same stubbing. Trusted: CrossHair/z3, py2smt translator (validated against the real Link on a grid each run).",
        "technique": "symbolic execution of the real code (CrossHair+z3) + AST-to-SMT translation of admission/accounting (z3 FP64), counterexamples replayed",
    },
    "C05": {
        "text": "Bounded symbolic model checking of request resolution on the real code: (kernel) RequestManager.__call__/"
        "check_valid on a synthetic 3-level tree with solver-chosen missing keys, refusing validators, truncation and "
        "handler answers; (live tree) every argument-free or templated leaf path of a node in a generated scenario built "
        "by PrimaiteGame.from_config, unmodified / misspelt at a depth / truncated, under every node power state and "
        "every service/application operating state: a request that does not reach its handler answers unreachable/"
        "failure and leaves Simulation.describe_state() bit-identical and sends no frame; (actions) every entry of a "
        "generated action map is never 'unreachable' when its components exist, never reaches a handler when they do not; with a file or a whole folder deleted earlier in the episode, every request and action that still addresses it (other than restoring exactly it, or creation) is not answered success and changes nothing; (service gate) terminal requests of a node whose own terminal is in any non-RUNNING service state, after a history of successful requests, are not answered success and never reach the target; (run-time routes) after an application was installed and uninstalled through the request API the node's request tree is what it was before, and every path that existed only in between is answered unreachable and changes nothing; the same live-tree sweep on a firewall and on a wireless router; files that come into being during the episode (create request with / without force, forced re-creation of a deleted name, copy_file) are addressed by requests that act on exactly that file.",
        "note": "Bounds: one host of a generated 4-node scenario, the firewall of a generated firewall-with-DMZ scenario and one wireless router of the shipped wireless scenario (quick); two host topologies (thorough); leaves with structured "
        "payload arguments (user/session/terminal/nmap/ACL requests) are exercised through the action map only. Trusted: "
        "CrossHair/z3, describe_state() as the state observation, the leaf-wrapping recorder.",
        "technique": TECH_S,
    },
    "C11": {
        "text": "Bounded symbolic model checking of mask-vs-execution on the real game: for every entry of a generated "
        "action map (all maskable host action types x components, actions naming missing components, router ACL/port "
        "actions) and every pre-state in {4 node power states} x {service states incl. RESTARTING} x {application "
        "states incl. INSTALLING} x {NIC flag} x {file live / file deleted / folder deleted / folder deleted and restored through the requests with the file deleted afterwards}, PrimaiteGame.action_mask "
        "(and PrimaiteGymEnv.action_masks) equals 'executing the request now reaches its handler', a masked-out action "
        "never succeeds and an allowed one is never refused by a permission rule.",
        "note": "Bounds: the generated scenarios and action map (66 entries switched, 79 routed, 94 with a firewall; a few more with the run-time-installed application); quick couples service/application states "
        "(6 pairs), thorough takes the full product. Trusted: CrossHair/z3, the leaf-wrapping recorder.",
        "technique": TECH_S,
    },
    "C01": {
        "text": "Bounded symbolic model checking of the real PrimaiteGymEnv on generated scenarios (BLUE proxy agent with "
        "an action map covering every host action type x components, actions on missing components, router ACL/port "
        "actions incl. out-of-range positions; periodic GREEN and database-corrupting RED agents): for every action "
        "index of each of k steps, episode limit M as a solver integer and a mid-episode reset at every position, "
        "step() does not raise, returns a finite reward, terminated False, truncated == (steps >= M), advances the "
        "tick by one and appends exactly one history item with a documented status per agent; reset() yields tick 0, "
        "empty histories, zero rewards and an incremented episode counter, and the next episode obeys the same contract.",
        "note": "Bounds: k=1 all actions, k=2 with ten state-changing first actions (incl. removal of an application that shares its port key with other software) one k=3 chain install/remove/any, and one k=2 job in which the GREEN agent uses its rewarded application in every step while the defender may remove it in the same step (quick); k=2 with every second "
        "action first, plus the shipped single-RL-agent scenario files with k=1 over their whole action map (thorough). "
        "Action indices are finite choices, so the solver's role is the exhaustive path enumeration and the truncation "
        "comparison for every M; reset() itself takes no symbolic input and is run untraced. Scripted agents use the "
        "scenario's seeded RNG (concrete). Trusted: CrossHair/z3, scenario generator.",
        "technique": TECH_S,
    },
    "C02": {
        "engine": "symex+py2smt",
        "text": "Leaf level: the real observation tree built by the from_config chain, evaluated on the real "
        "describe_state() dictionary in which every quantity a leaf reads is a solver value (every member of the real "
        "enums, unbounded non-negative counts, listed/unlisted/None ACL fields, absent components; observation configs listing exactly / more / fewer components than their num_* sizes; the address, wildcard, port and protocol id lists have pairwise different lengths and the last listed values are used); the result is "
        "checked against the real gymnasium space by a pure-Python membership walker, two observations in a row. "
        "Environment level: observations returned by reset/step for every action of the generated maps, nested and "
        "flattened, NMNE capture on/off, spaces equal across episodes. FP level: NIC traffic category and link "
        "utilisation band translated from source to FP64 and shown to stay in Discrete(11) for all finite doubles.",
        "note": "Bounds: thresholds of the generated scenario; enums coupled inside a group (every member visited, not "
        "every product); FirewallObservation on the generated firewall-with-DMZ scenario and through shipped scenarios in the C01 thorough tier. "
        "Trusted: CrossHair/z3(/cvc5 fallback), membership walker (validated against space.contains each run), py2smt "
        "(validated against the real functions on a grid each run).",
        "technique": "symbolic execution of the real code (CrossHair+z3) + AST-to-SMT translation of the FP categorisation kernels (z3/cvc5 FP64), counterexamples replayed",
    },
    "C09": {
        "text": "Bounded symbolic checking of the real pipeline Simulation.describe_state() -> ObservationManager.update "
        "on the observation tree of a generated scenario: ground truth is written onto the simulator objects as solver "
        "values (every member of the operating-state and health enums, actual and visible health independently, "
        "unbounded counts, interface flags, ACL slot contents through add_rule, link loads, NMNE counts over two "
        "steps) and every leaf is compared with the documented encoding computed from the objects; scan-gated and "
        "true-health configurations; non-ON nodes and padding slots read as defaults; slot -> component assignment; self-composition over two consecutive observations: a host observed ON with non-default values and then going down reads exactly like the same host going down without that history.",
        "note": "Bounds: one family symbolic at a time (service / application / file / folder / power+counters / ACL / link / NMNE), scan options declared for all nodes or per host with the opposite at the nodes level, thresholds of the generated scenario, 4 observed ACL slots, 9 link loads; firewall leaves (six ACL lists, three ports, ON/OFF) on a generated firewall-with-DMZ scenario; the users leaves of a host with 0-5 remote sessions opened through the real terminal and an optional local session. Trusted: CrossHair/z3, the reference encodings (from the observation classes' docstrings).",
        "technique": TECH_S,
    },
    "C08": {
        "engine": "symex+py2smt",
        "text": "T1: RouteTable.find_best_route translated from source to z3 (BV32 addresses and contiguous masks, FP64 "
        "metrics, optional default route) and shown equal to the longest-prefix / lowest-metric / first-declared / "
        "default-last oracle for every destination and every table of N routes. S: on generated topologies (switched "
        "LAN + 1 or 2 routers with static and default routes, /24 and /30 links) the TTL of an echo request is a solver "
        "integer (every receiving interface and routing hop lowers it, nothing is handed on with TTL < 1, large TTL is "
        "delivered); ping between every ordered host pair under a solver-chosen toggle (interface down, node off, "
        "ACL deny, switch off) agrees with an independent reachability model and is never handed to a third host's "
        "software; an interface hands a frame to its node only if it is addressed to it; on a LAN with two routers every unicast frame a host emits for an off-subnet address is addressed to its configured default gateway in every ARP-cache state (0-2 warm-up rounds, either side first), so an exchange the gateway refuses does not complete; the same reachability comparison on a generated firewall-with-DMZ scenario (12 ordered pairs, 13 toggles incl. ICMP denied in each of the six lists) and on the shipped wireless-WAN scenario (two wireless routers; access point down, router off, different frequencies, ACL deny); route tables declared in a scenario (Router.from_config) with fractional, equal and near-equal metrics in either order select the route of lowest declared metric; after stray packets for an unused address have bounced between a firewall and its upstream router until their TTL ran out, the permitted exchanges between the real hosts still succeed.",
        "note": "Bounds: N=3 (quick) / 4 (thorough) routes; non-contiguous masks excluded (stdlib raises); TTL -1..70; "
        "3 hosts, 9 toggles, cold/warm ARP. Termination is argued from the TTL measure (strictly decreasing, checked), "
        "not run.  Trusted: CrossHair/z3, the ipaddress BV model (validated "
        "against the stdlib on a grid and on solver witnesses each run).",
        "technique": "AST-to-SMT translation of route selection (z3 BV32+FP64) + symbolic execution of the real forwarding code (CrossHair+z3), counterexamples replayed",
    },
    "C06": {
        "text": "Decision points: Router.receive_frame and Firewall.receive_frame on real devices with warm ARP, the "
        "verdict of every ACL list a solver boolean: a denied frame causes no ARP learning, is not handed to the "
        "device's own software and is not forwarded; the firewall forwards from zone X to zone Y only if X's egress and "
        "Y's ingress list both permit, consults X's list first, and forwards when both permit (all 64 verdict combinations x 6 zone pairs, with and without a default route on the firewall). End to end: two copies of a generated host-router-server scenario in one path, "
        "the attacker runs a solver-chosen operation from a 10-item repertoire in one of them; with a solver-chosen "
        "block in place (ACL any-any / exact source / wildcard range / per-protocol rules, router port down, victim interface down, victim off, router off, and router / switch / victim powered off with a multi-step shutdown during which their port-enable API is called; before or after a warm-up exchange) the victim's identifier-"
        "normalised describe_state() after 3 ticks is identical in both; the same differential on a generated firewall-with-DMZ scenario (attacker on the external LAN, victim in the internal zone or in the DMZ; blocks: external-inbound deny any / wildcard range / per-protocol, the victim zone's inbound list, the zone port down, victim interface down, victim off, firewall off with zero or multi-step shutdown); a twin shows an unblocked attack is visible.",
        "note": "Bounds: two topologies (host-router-server, firewall with DMZ); the claim 'all cross-host effects travel as frames' only for the repertoire exercised; wireless and switched-only topologies not covered; ACL list logic itself is C07. The end-to-end "
        "part has only finite choices: the solver enumerates them exhaustively. Trusted: CrossHair/z3, the per-frame "
        "call recorders, describe_state() as the victim's state.",
        "technique": TECH_S,
    },
    "C04": {
        "text": "Self-composition on the real environment inside one symbolic path: (a) a used environment (every action of the map as dirtying prefix, then reset(seed), the seed a solver choice from {5, 0, 1, 2^31-1} in dedicated jobs) and a freshly constructed one take the same suffix; (b) "
        "environment A alone vs A with a differently configured environment B constructed / stepped / reset / closed "
        "at a solver-chosen interleaving position; compared step by step: observation, reward, truncation, every "
        "agent's action and response status, identifier-normalised Simulation.describe_state(). (c) identity walk "
        "over the object graphs of two games built from the same scenario: no shared mutable container or component.",
        "note": "Bounds: k=1 (quick) / 2 (thorough) dirtying actions, 4-step suffix; generated scenarios, plus the shipped "
        "episode-scheduled directories (each episode of a long-lived environment vs a fresh build, up to 11 resets). All inputs are finite choices - the solver's "
        "role is the exhaustive enumeration. One recorded finding (class-level NMNE configuration) is excluded by its "
        "predicate and re-demonstrated on every run. Trusted: CrossHair/z3, identifier normalisation.",
        "technique": TECH_S,
    },
    "C13": {
        "text": "Symbolic execution (CrossHair) of the real Service, Application, SoftwareManager, Node and HostNode code "
        "for all 13 service and 8 application types shipped: an inductive step from every operating, health and node-"
        "power state with unbounded durations and countdowns, checked against the documented request table "
        "(action_masking.rst, software.rst, enum docstrings), the payload-inertness rule (non-running software handles "
        "no payload, running healthy software does) and the open-port rule; bounded conformance runs of 2-4 events "
        "with power events against a reference machine with a band timing oracle; exhaustive 2-3 operation install/"
        "uninstall sequences with agreement of software_manager.software, node.services/applications, request routes, "
        "port mapping, open ports and describe_state(); uninstall with live database connections and re-install.",
        "note": "Timing is verified to a one-tick tolerance band (d <= n <= max(d+1, 2)) because the docs do not pin the "
        "convention; payloads are one representative concrete payload per type; longer sequences only through the "
        "one-step induction over the written invariant. One recorded open finding (single-owner port mapping, harness "
        "port_sharing, pair >= 1) is excluded by its predicate and re-demonstrated on every run. Trusted: CrossHair/z3.",
        "technique": TECH_S,
    },
    "C14": {
        "text": "Symbolic execution (CrossHair) of the real Software/Service/Application, File/Folder/FileSystem, Node and "
        "DatabaseService code through Simulation.apply_request and pre_timestep/apply_timestep against a shadow record "
        "of every item's (true, visible, deleted) state written from the property statement: inductive-step harnesses "
        "from an arbitrary pre-state of a written representation invariant (every enum member for true and visible "
        "health, solver-chosen durations and countdowns, node ON/OFF, file live/deleted, folder deleted), one of 16 "
        "operations incl. compromise during a fix, overlapping scans and power loss/return, followed tick by tick "
        "until every timer has run out; bounded runs of 2-4 operations from the real initial state; a two-node "
        "DatabaseService fix/restore harness.",
        "note": "Durations and countdowns 0..2 (quick) / 0..4 (thorough), one or two files, one node (two for db_fix). "
        "Network-borne attacks and install events are not driven. Where the statement is silent one reading is fixed "
        "(listed in the harness ASSUMPTIONS). Trusted: CrossHair/z3, the representation invariant.",
        "technique": TECH_S,
    },
    "C15": {
        "text": "Bounded symbolic model checking of the real file-system code operation by operation through "
        "Simulation.apply_request and the agent action classes' form_request: an inductive step takes one operation out "
        "of a 152-operation alphabet from every pre-state shape of a written representation invariant (77 shapes quick, "
        "all 185 thorough; counters, countdowns, durations and access counts unbounded solver integers; every health "
        "member in the thorough tier) and re-establishes it; exhaustive runs of 2 (quick) to 4 (thorough) operations "
        "from the real initial states. Checked after every operation: live/deleted partition by object identity, "
        "deleted flags, live-name uniqueness, request routes, reported state, per-tick counters, unavailability of "
        "deleted items, creating an existing name refused or a no-op and never raising; the per-tick counters start every tick at zero also on a node that was shut down in the tick in which files were created / deleted / accessed.",
        "note": "File and folder names are concrete representatives (the code only compares names with ==); copy_file / "
        "move_file have no request route and are not covered; node ON throughout. Trusted: CrossHair/z3, the invariant.",
        "technique": TECH_S,
    },
    "C17": {
        "text": "Bounded symbolic model checking of the real DatabaseService / DatabaseClient / FTP / red-application code: "
        "DatabaseService.receive for every member of the node, service, software-health and file-health enums, any "
        "subset of issued connections, any integer session limit and every payload kind (connections only for the "
        "right password on a RUNNING service on an ON node below capacity; queries only on issued, unclosed "
        "connections with the stated health effects; disconnects only by the owner); DatabaseClient bookkeeping "
        "against solver-chosen server replies; on a real routed network every 2-operation (quick) / 3-operation and "
        "selected 4-operation (thorough) sequence out of 38 operations from a warm start against a reference "
        "'issued and not closed' set and 'health at backup time'; backup / damage / block / restore scenarios and the "
        "red applications.",
        "note": "Passwords and ids from small representative alphabets (the code only tests equality and membership), "
        "well-formed payloads only, liveness demanded only in the healthy case, link bandwidth raised so that C18 never "
        "interferes, restart/fix/power timing not asserted. Trusted: CrossHair/z3.",
        "technique": TECH_S,
    },
    "C20": {
        "text": "Inventory conformance over a generated scenario family: the parsed scenario dict of a host-router-server "
        "scenario is assembled from 14 solver-chosen presence bits (users, extra folder/files, static and default route, a second ACL rule at a solver-chosen position, listen ports, fixing-duration option, simulation defaults, a node declared OFF, explicit node durations, re-declared pre-installed software, a dns-client declared with its own server differing from the host's), bandwidth and a "
        "key-order permutation of the mappings the loader iterates; the real PrimaiteGame.from_config builds it and an "
        "inventory of the built object graph (nodes, addresses, links+bandwidth, routes, ACL rules at positions, "
        "software with options and state, users, folders/files, agents, durations) is compared with an inventory derived independently from the dict, right after from_config and again after the episode set-up that every reset() runs; the NMNE capture settings in effect are the ones the scenario declares although another scenario with the opposite declaration was loaded before in the same process; the permuted scenario builds an identical simulation; the shipped scenario files with an RL agent go through the same comparison; an office-lan node set (1-47 hosts, with/without router, 3 bandwidths) is compared with its documented expansion, including link bandwidths and reachability inside the set; episode-scheduled directories build episode e from the files under key e whatever order the keys are written in; the shipped wireless scenario with each access point declared on either frequency is built on that frequency, also as registered in the air space.",
        "note": "The claim starts at the parsed dict (PyYAML's C parser is outside the encoding); all inputs are finite "
        "choices - the solver enumerates the combinations (14 presence bits, 7 coupled per quick job; all 2^11 combinations of the first 11 in thorough). "
        "Episode-list schedules are covered for the key-to-files mapping only (schedule_inventory; their run-time behaviour is C01/C04); plugin node types are not covered. Trusted: CrossHair/z3, the reference inventory.",
        "technique": TECH_S,
    },
    "C10": {
        "engine": "symex+py2smt",
        "text": "Real graph_has_cycle and topological_sort exhausted over every directed graph on up to 4 nodes (self-loops "
        "included) with every declaration order; the real PrimaiteGame.from_config / setup_reward_sharing / "
        "update_agents with real agents, RewardFunction and SharedReward explored for every sharing graph on up to 4 "
        "agents (cyclic graphs refused at load; for acyclic graphs each agent's reward = base value + weight x the "
        "SAME-step reward of each shared agent, from arbitrary stale rewards and totals with unbounded solver "
        "component values; totals grow by exactly the step reward); RewardFunction.update is the weighted sum for up to "
        "4 components with weights from a covering set, and by SMT over all finite IEEE doubles (n <= 3) equals the "
        "left-to-right fold, ignores zero-weight components and stays finite; every built-in component's sticky / "
        "non-sticky step from an arbitrary memory value over all request shapes and response statuses; a real client/"
        "server scenario run for 2-3 steps over all action sequences, sticky settings and declaration orders incl. "
        "the value returned by env.step and the episode total at reset.",
        "note": "Floats are reals in Engine S; IEEE behaviour decided only for the update kernel (n <= 3; the n = 3 zero-"
        "weight and finiteness results rest on single-operation lemmas composed by an induction argued in prose). "
        "Config loading and the simulation run concretely per path, enumerated by the solver. Bounds: 4 agents, 3 "
        "steps, at most 2 codes / history entries. Trusted: CrossHair/z3, py2smt (validated on 120 points per run).",
        "technique": "symbolic execution of the real code (CrossHair+z3) + AST-to-SMT translation of the weighted-sum kernel (z3 FP64), counterexamples replayed",
    },
    "C16": {
        "text": "Bounded-exhaustive symbolic execution of the real UserManager / UserSessionManager / Terminal code on two "
        "connected real nodes against a reference session model written from the statement: an inductive step from "
        "every pre-state of a written representation invariant (up to 3 remote sessions plus a local session, 3 "
        "accounts with solver-chosen admin/disabled flags, unbounded idle times, time-outs, session limit and clock "
        "jump, every node and service operating-state member, 3 desynchronised client/server views, 46 (quick) / 86 (thorough) operations through the request API, incl. a remote command sent by the server node towards the client node, where it holds no session) and all operation sequences of length 2-4 from the real "
        "initial state; compared after every operation: describe_state() of the session manager, the users table, "
        "the enabled-admin invariant, the session limit, last-active steps, the server terminal's connection table, "
        "the response status and the effect of the remote command (a folder created on the target).",
        "note": "Account names, passwords and session ids are concrete; sequences deeper than 4 rely on the inductive step "
        "and its hand-written invariant. Sessions surviving a node reboot / terminal restart are tolerated (the "
        "statement lists only logout, time-out and password change as ending events) but no login or command may "
        "succeed while a node is not ON or the server terminal is not RUNNING. Trusted: CrossHair/z3.",
        "technique": TECH_S,
    },
    "C19": {
        "text": "Bounded symbolic model checking of the real scripted-agent classes with randomness as solver variables "
        "(the random module objects, science.random and the numpy Generator are stubs that hand out pre-allocated "
        "solver values under the library contract only). PeriodicAgent and DataManipulationAgent: every path of 7 "
        "(thorough 11) steps from the real constructor plus an unbounded-horizon inductive step, all timing settings "
        "and max_executions unbounded solver integers. ProbabilisticAgent (built through from_config): all key orders "
        "x action-map orders x probability tables over {0,1/4,1/2,3/4,1} for 3 (thorough 4) actions - the selected "
        "action always has configured probability > 0. TAP003 and TAP001 (shipped UC7 settings): every path of "
        "3-step (thorough 5-6 step) windows started at each step of the kill chain with unbounded timing settings, "
        "both repeat flags, all draws, trial outcomes, three response statuses and scan results solver-chosen: stage "
        "order without skipping, nothing outside permitted steps, gaps within frequency +- variance, restart/stop per "
        "the repeat flags, actions only from the chosen start node.",
        "note": "Randomness and the simulator's answers to red actions are contract-only stubs; TAP horizons are sliding "
        "windows from states reached with every request granted; stage probabilities range over {0, 1/2, 1}; TAP001's "
        "ACTIVATE stage is not required to honour its probability (the code deliberately applies none). RandomAgent has "
        "no settings and is not covered. Trusted: CrossHair/z3, the stubs' contracts.",
        "technique": TECH_S,
    },
}

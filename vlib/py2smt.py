"""Engine T: symbolic evaluation of the Python AST of real leaf functions into z3 terms, with state merging.

The source is read with inspect.getsource from the object imported from /repo on every run.  Supported subset:
assignments, augmented assignments, if/elif/else (merged with z3.If), for over a concrete-length sequence (unrolled),
return (guarded), bool/compare/arith/bit operators, conditional expressions, attribute reads on records, f-strings
(kept as opaque part lists for the ipaddress model), calls to intrinsics (int, float, len, min, max, isinstance,
IPv4Address, IPv4Network, dict.get) and calls to other plain Python functions (translated recursively).
Anything else raises Untranslatable - the caller reports a harness error, never 'holds'.

Sorts: IPv4 address = BitVec(32); float = FP(11,53), RNE; Python int from int(float) = Int via fpToSBV(RTZ) (callers
bound the magnitude so the 64-bit conversion is exact); bool = Bool.
"""
from __future__ import annotations

import ast
import inspect
import textwrap
from typing import Any, Callable, Dict, List, Optional

import z3


class Untranslatable(Exception):
    pass


RNE = z3.RNE()
FP64 = z3.Float64()


class Rec:
    """A record with named (possibly symbolic) fields; `truthy` is a python bool or z3 Bool (None-ness)."""

    def __init__(self, fields: Dict[str, Any], present: Any = True, tag: str = "rec"):
        self.fields = fields
        self.present = present
        self.tag = tag

    def __repr__(self):
        return f"Rec<{self.tag}>"


class NoneVal:
    def __repr__(self):
        return "NoneVal"


NONE = NoneVal()


class FStr:
    """An f-string kept as its parts (constants and evaluated values)."""

    def __init__(self, parts):
        self.parts = parts


class Net:
    """Model of ipaddress.IPv4Network(f"{addr}/{mask}", strict=False) for a contiguous mask."""

    def __init__(self, network, netmask):
        self.network = network
        self.netmask = netmask


def popcount32(bv):
    return z3.Sum([z3.BV2Int(z3.Extract(i, i, bv)) for i in range(32)])


def is_z3(x) -> bool:
    return isinstance(x, z3.ExprRef)


def to_bool(x):
    """Python truthiness of a value as python bool or z3 Bool."""
    if isinstance(x, bool):
        return x
    if x is NONE or x is None:
        return False
    if isinstance(x, Rec):
        return x.present
    if isinstance(x, (int, float, str, list, tuple, dict)):
        return bool(x)
    if is_z3(x):
        if z3.is_bool(x):
            return x
        if z3.is_bv(x):
            return x != z3.BitVecVal(0, x.size())
        if z3.is_int(x):
            return x != 0
        if z3.is_fp(x):
            return z3.Not(z3.fpIsZero(x))
    if isinstance(x, (Net, FStr)):
        return True
    raise Untranslatable(f"truthiness of {type(x).__name__}")


def z_not(a):
    return (not a) if isinstance(a, bool) else z3.Not(a)


def z_and(a, b):
    if isinstance(a, bool):
        return b if a else False
    if isinstance(b, bool):
        return a if b else False
    return z3.And(a, b)


def z_or(a, b):
    if isinstance(a, bool):
        return True if a else b
    if isinstance(b, bool):
        return True if b else a
    return z3.Or(a, b)


def lift(v, like=None):
    """Python constant -> z3 value of the sort of `like`."""
    if is_z3(v):
        return v
    if like is not None and is_z3(like):
        if z3.is_fp(like):
            return z3.FPVal(float(v), FP64)
        if z3.is_bv(like):
            return z3.BitVecVal(int(v), like.size())
        if z3.is_int(like):
            return z3.IntVal(int(v))
        if z3.is_bool(like):
            return z3.BoolVal(bool(v))
    if isinstance(v, bool):
        return z3.BoolVal(v)
    if isinstance(v, int):
        return z3.IntVal(v)
    if isinstance(v, float):
        return z3.FPVal(v, FP64)
    raise Untranslatable(f"cannot lift {v!r}")


def coerce_pair(a, b):
    if is_z3(a) and not is_z3(b):
        return a, lift(b, a)
    if is_z3(b) and not is_z3(a):
        return lift(a, b), b
    if is_z3(a) and is_z3(b):
        if z3.is_fp(a) and z3.is_int(b):
            return a, z3.fpToFP(RNE, z3.ToReal(b), FP64)
        if z3.is_int(a) and z3.is_fp(b):
            return z3.fpToFP(RNE, z3.ToReal(a), FP64), b
    return a, b


def merge(cond, a, b):
    """Value of `a if cond else b` (cond is z3 Bool)."""
    if a is b:
        return a
    if isinstance(cond, bool):
        return a if cond else b
    if isinstance(a, Rec) or isinstance(b, Rec):
        ra = a if isinstance(a, Rec) else None
        rb = b if isinstance(b, Rec) else None
        if (ra is None and a is not NONE) or (rb is None and b is not NONE):
            raise Untranslatable("merge of record with non-record")
        if ra is None:
            return Rec(dict(rb.fields), z_and(z_not(cond), rb.present), rb.tag)
        if rb is None:
            return Rec(dict(ra.fields), z_and(cond, ra.present), ra.tag)
        if set(ra.fields) != set(rb.fields):
            raise Untranslatable("merge of records with different fields")
        return Rec(
            {k: merge(cond, ra.fields[k], rb.fields[k]) for k in ra.fields},
            merge(cond, ra.present, rb.present),
            ra.tag,
        )
    if a is NONE and b is NONE:
        return NONE
    if not is_z3(a) and not is_z3(b):
        if type(a) is type(b) and a == b:
            return a
        if isinstance(a, (bool, int, float)) and isinstance(b, (bool, int, float)):
            a = lift(a)
            b = lift(b, a)
        else:
            raise Untranslatable(f"merge of {a!r} and {b!r}")
    a, b = coerce_pair(a, b)
    if isinstance(a, bool):
        a = z3.BoolVal(a)
    if isinstance(b, bool):
        b = z3.BoolVal(b)
    return z3.If(cond, a, b)


class _Return(Exception):
    pass


class Frame:
    def __init__(self, env: Dict[str, Any]):
        self.env = env
        self.returned = False  # python bool or z3 Bool: "a return has already been executed"
        self.retval: Any = None
        self.has_ret = False
        self.definitely = False  # an unguarded return was reached: the function cannot fall off its end


class Translator:
    def __init__(self, intrinsics: Optional[Dict[str, Callable]] = None, log_names=("_LOGGER", "sys_log")):
        self.intrinsics = dict(DEFAULT_INTRINSICS)
        if intrinsics:
            self.intrinsics.update(intrinsics)
        self.log_names = set(log_names)
        self.translated: List[str] = []
        self.side_effects: List[Any] = []

    # ---------------------------------------------------------------- entry
    def call_function(self, fn: Callable, args: List[Any], kwargs: Dict[str, Any]):
        target = inspect.unwrap(fn)
        raw = getattr(fn, "raw_function", None)  # pydantic validate_call wrapper
        if raw is not None:
            target = raw
        try:
            src = textwrap.dedent(inspect.getsource(target))
        except (OSError, TypeError) as e:
            raise Untranslatable(f"no source for {fn!r}: {e}")
        tree = ast.parse(src)
        fdef = tree.body[0]
        if not isinstance(fdef, ast.FunctionDef):
            raise Untranslatable("not a function definition")
        self.translated.append(f"{getattr(target, '__module__', '?')}.{getattr(target, '__qualname__', '?')}")
        params = [a.arg for a in fdef.args.args]
        env: Dict[str, Any] = {}
        defaults = fdef.args.defaults
        glob = getattr(target, "__globals__", {})
        for i, d in enumerate(defaults):
            env[params[len(params) - len(defaults) + i]] = self.eval_expr(d, Frame(dict(glob)))
        for p, a in zip(params, args):
            env[p] = a
        for k, v in kwargs.items():
            if k not in params:
                raise Untranslatable(f"unexpected kwarg {k}")
            env[k] = v
        for p in params:
            if p not in env:
                raise Untranslatable(f"missing argument {p}")
        fr = Frame(env)
        fr.globals = glob
        self.exec_block(fdef.body, fr, True)
        if not fr.has_ret:
            return NONE
        if fr.definitely:
            return fr.retval
        # falling off the end returns None
        if isinstance(fr.returned, bool):
            return fr.retval if fr.returned else NONE
        return merge(fr.returned, fr.retval, NONE) if fr.retval is not NONE else NONE

    # ---------------------------------------------------------------- statements
    def exec_block(self, stmts, fr: Frame, guard):
        for st in stmts:
            self.exec_stmt(st, fr, guard)

    def _live(self, fr: Frame, guard):
        """Condition under which the current statement executes: guard and not yet returned."""
        return z_and(guard, z_not(fr.returned))

    def assign(self, fr: Frame, name: str, val, live):
        if isinstance(live, bool):
            if live:
                fr.env[name] = val
            return
        old = fr.env.get(name, _UNSET)
        if old is _UNSET:
            fr.env[name] = val  # first definition on a conditional path: value only read where defined
        else:
            fr.env[name] = merge(live, val, old)

    def exec_stmt(self, st, fr: Frame, guard):
        live = self._live(fr, guard)
        if isinstance(live, bool) and not live:
            return
        if isinstance(st, ast.Expr):
            if isinstance(st.value, ast.Constant):
                return  # docstring
            if isinstance(st.value, ast.Call) and self._is_logging(st.value):
                return
            v = self.eval_expr(st.value, fr)  # evaluated for translatability; value dropped
            return
        if isinstance(st, ast.Pass):
            return
        if isinstance(st, ast.Assign):
            val = self.eval_expr(st.value, fr)
            for tgt in st.targets:
                self._assign_target(tgt, val, fr, live)
            return
        if isinstance(st, ast.AnnAssign):
            if st.value is not None:
                self._assign_target(st.target, self.eval_expr(st.value, fr), fr, live)
            return
        if isinstance(st, ast.AugAssign):
            cur = self.eval_expr(st.target, fr)
            val = self.binop(st.op, cur, self.eval_expr(st.value, fr))
            self._assign_target(st.target, val, fr, live)
            return
        if isinstance(st, ast.If):
            c = to_bool(self.eval_expr(st.test, fr))
            if isinstance(c, bool):
                self.exec_block(st.body if c else st.orelse, fr, guard)
            else:
                self.exec_block(st.body, fr, z_and(guard, c))
                self.exec_block(st.orelse, fr, z_and(guard, z3.Not(c)))
            return
        if isinstance(st, ast.For):
            seq = self.eval_expr(st.iter, fr)
            if not isinstance(seq, (list, tuple)):
                raise Untranslatable("for over a non-concrete sequence")
            if st.orelse:
                raise Untranslatable("for-else")
            for item in seq:
                self._assign_target(st.target, item, fr, self._live(fr, guard))
                self.exec_block(st.body, fr, guard)
            return
        if isinstance(st, ast.Return):
            val = self.eval_expr(st.value, fr) if st.value is not None else NONE
            if not fr.has_ret:
                fr.retval = val
                fr.has_ret = True
            else:
                fr.retval = merge(live, val, fr.retval) if not isinstance(live, bool) else val
            fr.returned = z_or(fr.returned, live)
            if guard is True:
                fr.definitely = True
            return
        raise Untranslatable(f"statement {type(st).__name__}")

    def _assign_target(self, tgt, val, fr: Frame, live):
        if isinstance(tgt, ast.Name):
            self.assign(fr, tgt.id, val, live)
            return
        if isinstance(tgt, ast.Attribute):
            obj = self.eval_expr(tgt.value, fr)
            if isinstance(obj, Rec):
                old = obj.fields.get(tgt.attr, _UNSET)
                if isinstance(live, bool):
                    if live:
                        obj.fields[tgt.attr] = val
                else:
                    obj.fields[tgt.attr] = val if old is _UNSET else merge(live, val, old)
                return
        raise Untranslatable(f"assignment target {ast.dump(tgt)[:60]}")

    def _is_logging(self, call: ast.Call) -> bool:
        f = call.func
        while isinstance(f, ast.Attribute):
            if f.attr in self.log_names:
                return True
            f = f.value
        return isinstance(f, ast.Name) and f.id in self.log_names

    # ---------------------------------------------------------------- expressions
    def eval_expr(self, e, fr: Frame):
        if isinstance(e, ast.Constant):
            return NONE if e.value is None else e.value
        if isinstance(e, ast.Name):
            if e.id in fr.env:
                return fr.env[e.id]
            g = getattr(fr, "globals", {})
            if e.id in self.intrinsics:
                return _Intrinsic(e.id, self.intrinsics[e.id])
            if e.id in g:
                return g[e.id]
            import builtins

            if hasattr(builtins, e.id):
                return getattr(builtins, e.id)
            raise Untranslatable(f"unknown name {e.id}")
        if isinstance(e, ast.Attribute):
            obj = self.eval_expr(e.value, fr)
            return self.getattr(obj, e.attr)
        if isinstance(e, ast.BinOp):
            return self.binop(e.op, self.eval_expr(e.left, fr), self.eval_expr(e.right, fr))
        if isinstance(e, ast.UnaryOp):
            v = self.eval_expr(e.operand, fr)
            if isinstance(e.op, ast.Not):
                return z_not(to_bool(v))
            if isinstance(e.op, ast.Invert):
                return ~v
            if isinstance(e.op, ast.USub):
                return z3.fpNeg(v) if is_z3(v) and z3.is_fp(v) else -v
            raise Untranslatable("unary op")
        if isinstance(e, ast.BoolOp):
            vals = [self.eval_expr(v, fr) for v in e.values]
            # only boolean-valued uses are supported (conditions); value-returning and/or of objects is rejected
            acc = to_bool(vals[0])
            for v in vals[1:]:
                acc = z_and(acc, to_bool(v)) if isinstance(e.op, ast.And) else z_or(acc, to_bool(v))
            return acc
        if isinstance(e, ast.Compare):
            left = self.eval_expr(e.left, fr)
            acc: Any = True
            for op, right_e in zip(e.ops, e.comparators):
                right = self.eval_expr(right_e, fr)
                acc = z_and(acc, self.compare(op, left, right))
                left = right
            return acc
        if isinstance(e, ast.IfExp):
            c = to_bool(self.eval_expr(e.test, fr))
            if isinstance(c, bool):
                return self.eval_expr(e.body if c else e.orelse, fr)
            return merge(c, self.eval_expr(e.body, fr), self.eval_expr(e.orelse, fr))
        if isinstance(e, ast.Call):
            if self._is_logging(e):
                return NONE
            fn = self.eval_expr(e.func, fr)
            args = [self.eval_expr(a, fr) for a in e.args]
            kwargs = {k.arg: self.eval_expr(k.value, fr) for k in e.keywords}
            return self.call(fn, args, kwargs)
        if isinstance(e, ast.JoinedStr):
            parts = []
            for v in e.values:
                if isinstance(v, ast.Constant):
                    parts.append(v.value)
                elif isinstance(v, ast.FormattedValue):
                    parts.append(self.eval_expr(v.value, fr))
            return FStr(parts)
        if isinstance(e, ast.Subscript):
            obj = self.eval_expr(e.value, fr)
            idx = self.eval_expr(e.slice, fr)
            if isinstance(obj, (list, tuple, dict)) and not is_z3(idx):
                return obj[idx]
            raise Untranslatable("subscript on symbolic")
        if isinstance(e, ast.Dict):
            out = {}
            for k, v in zip(e.keys, e.values):
                if k is None:
                    raise Untranslatable("dict unpacking")
                kk = self.eval_expr(k, fr)
                if is_z3(kk):
                    raise Untranslatable("symbolic dict key")
                out[kk] = self.eval_expr(v, fr)
            return out
        if isinstance(e, ast.Tuple):
            return tuple(self.eval_expr(x, fr) for x in e.elts)
        if isinstance(e, ast.List):
            return [self.eval_expr(x, fr) for x in e.elts]
        raise Untranslatable(f"expression {type(e).__name__}")

    def getattr(self, obj, attr):
        if isinstance(obj, Rec):
            if attr in obj.fields:
                return obj.fields[attr]
            raise Untranslatable(f"record has no field {attr}")
        if isinstance(obj, Net):
            if attr == "prefixlen":
                return popcount32(obj.netmask)
            if attr == "network_address":
                return obj.network
            if attr == "netmask":
                return obj.netmask
            if attr == "broadcast_address":
                return obj.network | ~obj.netmask
            raise Untranslatable(f"Net.{attr}")
        if isinstance(obj, dict) and attr == "get":
            return _Intrinsic("dict.get", lambda k, d=NONE, obj=obj: obj.get(k, d))
        if is_z3(obj) or obj is NONE:
            raise Untranslatable(f"attribute {attr} of symbolic scalar")
        try:
            return getattr(obj, attr)
        except AttributeError:
            raise Untranslatable(f"attribute {attr}")

    def binop(self, op, a, b):
        a, b = coerce_pair(a, b)
        if is_z3(a) and z3.is_fp(a):
            if isinstance(op, ast.Add):
                return z3.fpAdd(RNE, a, b)
            if isinstance(op, ast.Sub):
                return z3.fpSub(RNE, a, b)
            if isinstance(op, ast.Mult):
                return z3.fpMul(RNE, a, b)
            if isinstance(op, ast.Div):
                return z3.fpDiv(RNE, a, b)
            raise Untranslatable("fp op")
        if isinstance(op, ast.Add):
            return a + b
        if isinstance(op, ast.Sub):
            return a - b
        if isinstance(op, ast.Mult):
            return a * b
        if isinstance(op, ast.BitAnd):
            return a & b
        if isinstance(op, ast.BitOr):
            return a | b
        if isinstance(op, ast.BitXor):
            return a ^ b
        if isinstance(op, ast.Div) and not is_z3(a):
            return a / b
        raise Untranslatable(f"binary op {type(op).__name__}")

    def compare(self, op, a, b):
        if isinstance(op, (ast.Is, ast.IsNot)):
            if b is NONE or a is NONE:
                other = a if b is NONE else b
                if isinstance(other, Rec):
                    r = z_not(other.present)
                elif other is NONE:
                    r = True
                else:
                    r = False
                return r if isinstance(op, ast.Is) else z_not(r)
            if not is_z3(a) and not is_z3(b) and not isinstance(a, Rec) and not isinstance(b, Rec):
                return (a is b) if isinstance(op, ast.Is) else (a is not b)
            raise Untranslatable("is-comparison of non-None")
        if isinstance(op, (ast.In, ast.NotIn)):
            if isinstance(b, Net):
                r = (a & b.netmask) == b.network
                return r if isinstance(op, ast.In) else z3.Not(r)
            if isinstance(b, (list, tuple, set, dict)) and not is_z3(a):
                return (a in b) if isinstance(op, ast.In) else (a not in b)
            if isinstance(b, (list, tuple)) and is_z3(a):
                r = z3.Or([a == lift(x, a) for x in b]) if b else False
                return r if isinstance(op, ast.In) else z_not(r)
            raise Untranslatable("in-comparison")
        a, b = coerce_pair(a, b)
        if not is_z3(a) and not is_z3(b):
            import operator as o

            table = {ast.Eq: o.eq, ast.NotEq: o.ne, ast.Lt: o.lt, ast.LtE: o.le, ast.Gt: o.gt, ast.GtE: o.ge}
            return table[type(op)](a, b)
        if z3.is_fp(a):
            t = {
                ast.Eq: z3.fpEQ,
                ast.NotEq: z3.fpNEQ,
                ast.Lt: z3.fpLT,
                ast.LtE: z3.fpLEQ,
                ast.Gt: z3.fpGT,
                ast.GtE: z3.fpGEQ,
            }
            return t[type(op)](a, b)
        if z3.is_bv(a):
            t = {
                ast.Eq: lambda x, y: x == y,
                ast.NotEq: lambda x, y: x != y,
                ast.Lt: z3.ULT,
                ast.LtE: z3.ULE,
                ast.Gt: z3.UGT,
                ast.GtE: z3.UGE,
            }
            return t[type(op)](a, b)
        t = {
            ast.Eq: lambda x, y: x == y,
            ast.NotEq: lambda x, y: x != y,
            ast.Lt: lambda x, y: x < y,
            ast.LtE: lambda x, y: x <= y,
            ast.Gt: lambda x, y: x > y,
            ast.GtE: lambda x, y: x >= y,
        }
        return t[type(op)](a, b)

    def call(self, fn, args, kwargs):
        if isinstance(fn, _Intrinsic):
            return fn.fn(*args, **kwargs)
        for name, impl in self.intrinsics.items():
            tgt = _INTRINSIC_TARGETS.get(name)
            if tgt is not None and fn is tgt:
                return impl(*args, **kwargs)
        if inspect.isfunction(fn) or hasattr(fn, "raw_function") or inspect.ismethod(fn):
            if inspect.ismethod(fn):
                return self.call_function(fn.__func__, [fn.__self__] + args, kwargs)
            return self.call_function(fn, args, kwargs)
        raise Untranslatable(f"call to {fn!r}")


_UNSET = object()


class _Intrinsic:
    def __init__(self, name, fn):
        self.name, self.fn = name, fn


def _i_int(x=0):
    if is_z3(x):
        if z3.is_bv(x) or z3.is_int(x):
            return x
        if z3.is_fp(x):
            # Python int(float): truncation toward zero. Exact while |x| < 2^62 (callers assert the bound).
            return z3.BV2Int(z3.fpToSBV(z3.RTZ(), x, z3.BitVecSort(64)), is_signed=True)
    if isinstance(x, (int, float, str)):
        return int(x)
    raise Untranslatable("int() of this value")


def _i_float(x=0.0):
    if isinstance(x, str):
        if x in ("inf", "+inf"):
            return z3.fpPlusInfinity(FP64)
        if x == "-inf":
            return z3.fpMinusInfinity(FP64)
        return z3.FPVal(float(x), FP64)
    if is_z3(x):
        if z3.is_fp(x):
            return x
        if z3.is_int(x):
            return z3.fpToFP(RNE, z3.ToReal(x), FP64)
    if isinstance(x, (int, float)):
        return z3.FPVal(float(x), FP64)
    raise Untranslatable("float() of this value")


def _i_min(*a):
    if len(a) == 1:
        a = tuple(a[0])
    acc = a[0]
    for x in a[1:]:
        p, q = coerce_pair(acc, x)
        if not is_z3(p):
            acc = min(p, q)
        elif z3.is_fp(p):
            acc = z3.If(z3.fpLT(q, p), q, p)
        else:
            acc = z3.If(q < p, q, p)
    return acc


def _i_max(*a):
    if len(a) == 1:
        a = tuple(a[0])
    acc = a[0]
    for x in a[1:]:
        p, q = coerce_pair(acc, x)
        if not is_z3(p):
            acc = max(p, q)
        elif z3.is_fp(p):
            acc = z3.If(z3.fpGT(q, p), q, p)
        else:
            acc = z3.If(q > p, q, p)
    return acc


def _i_isinstance(obj, cls):
    import ipaddress

    if cls is ipaddress.IPv4Address:
        return is_z3(obj) and z3.is_bv(obj)
    if isinstance(obj, Rec):
        return False
    if is_z3(obj):
        if cls is float:
            return z3.is_fp(obj)
        if cls is int:
            return z3.is_int(obj) or z3.is_bv(obj)
        if cls is bool:
            return z3.is_bool(obj)
        return False
    return isinstance(obj, cls)


def _i_ipv4address(x):
    if is_z3(x) and z3.is_bv(x):
        return x
    if isinstance(x, (str, int)):
        import ipaddress

        return z3.BitVecVal(int(ipaddress.IPv4Address(x)), 32)
    raise Untranslatable("IPv4Address() of this value")


def _i_ipv4network(x, strict=True):
    if isinstance(x, FStr) and len(x.parts) == 3 and x.parts[1] == "/":
        addr, mask = x.parts[0], x.parts[2]
        if strict is not False:
            raise Untranslatable("IPv4Network strict=True not modelled")
        return Net(addr & mask, mask)
    raise Untranslatable("IPv4Network() of this value")


def _i_access_from_nested_dict(dictionary, keys):
    """primaite.game.agent.utils.access_from_nested_dict on a dict whose STRUCTURE is concrete (values may be terms)."""
    from primaite.game.agent.utils import access_from_nested_dict

    if keys is NONE:
        keys = None
    return access_from_nested_dict(dictionary, keys)


DEFAULT_INTRINSICS: Dict[str, Callable] = {
    "access_from_nested_dict": _i_access_from_nested_dict,
    "int": _i_int,
    "float": _i_float,
    "min": _i_min,
    "max": _i_max,
    "len": lambda x: len(x),
    "isinstance": _i_isinstance,
    "IPv4Address": _i_ipv4address,
    "IPv4Network": _i_ipv4network,
}
import builtins as _b
import ipaddress as _ip

_INTRINSIC_TARGETS = {
    "int": _b.int,
    "float": _b.float,
    "min": _b.min,
    "max": _b.max,
    "len": _b.len,
    "isinstance": _b.isinstance,
    "IPv4Address": _ip.IPv4Address,
    "IPv4Network": _ip.IPv4Network,
}


# --------------------------------------------------------------------------------------------------------------
# obligations
# --------------------------------------------------------------------------------------------------------------
class Obligations:
    """Collects obligations 'assumptions => claim', decides each with z3 (negated claim, unsat = holds)."""

    def __init__(self, timeout_ms: int = 120000):
        self.timeout_ms = timeout_ms
        self.results: List[Dict[str, Any]] = []
        self.queries = 0
        self.time_s = 0.0

    def prove(self, name: str, assumptions: List[Any], claim, witness_vars: Optional[Dict[str, Any]] = None):
        import time

        s = z3.Solver()
        s.set("timeout", self.timeout_ms)
        for a in assumptions:
            s.add(a)
        t0 = time.time()
        # vacuity: assumptions alone must be satisfiable
        vac = s.check()
        self.queries += 1
        rec: Dict[str, Any] = {"name": name}
        if str(vac) != "sat":
            rec.update(status="ERROR" if str(vac) == "unsat" else "INCONCLUSIVE", reason=f"assumptions are {vac}")
            self.time_s += time.time() - t0
            self.results.append(rec)
            return rec
        if witness_vars:
            m = s.model()
            rec["assumption_witness"] = {k: _val(m, v) for k, v in witness_vars.items()}
        s.push()
        s.add(z3.Not(claim) if not isinstance(claim, bool) else z3.BoolVal(not claim))
        r = s.check()
        self.queries += 1
        rec["smt2_size"] = len(s.sexpr())
        if str(r) == "unsat":
            rec["status"] = "CONFIRMED"
        elif str(r) == "sat":
            m = s.model()
            rec["status"] = "REFUTED"
            rec["model"] = {k: _val(m, v) for k, v in (witness_vars or {}).items()}
        else:
            rec["status"] = "INCONCLUSIVE"
            rec["reason"] = s.reason_unknown()
            # second back end: cvc5 on the same SMT-LIB2 text (it decides FP division/multiplication much faster)
            c = cvc5_check(s.sexpr(), self.timeout_ms)
            self.queries += 1
            rec["cvc5"] = c
            if c == "unsat":
                rec["status"] = "CONFIRMED"
                rec["decided_by"] = "cvc5"
            elif c == "sat":
                rec["status"] = "INCONCLUSIVE"
                rec["reason"] = "cvc5 says sat but no model is extracted through this path; z3 timed out"
        s.pop()
        rec["time_s"] = round(time.time() - t0, 3)
        self.time_s += time.time() - t0
        self.results.append(rec)
        return rec


def _val(m, v):
    x = m.eval(v, model_completion=True)
    if z3.is_bv_value(x) or z3.is_int_value(x):
        return x.as_long()
    if z3.is_true(x) or z3.is_false(x):
        return z3.is_true(x)
    if z3.is_fp(x):
        try:
            import struct

            if z3.is_fprm_value(x):
                return str(x)
            if x.isNaN():
                return "nan"
            if x.isInf():
                return "-inf" if x.isNegative() else "inf"
            bv = m.eval(z3.fpToIEEEBV(x), model_completion=True).as_long()
            return struct.unpack(">d", bv.to_bytes(8, "big"))[0]
        except Exception:
            return str(x)
    return str(x)


def cvc5_check(smt2: str, timeout_ms: int) -> str:
    """Decide an SMT-LIB2 script (z3's sexpr() dump) with the cvc5 wheel. Returns 'sat'/'unsat'/'unknown'/'error: ..'."""
    try:
        import cvc5
    except Exception as e:  # pragma: no cover
        return f"error: cvc5 unavailable ({e})"
    try:
        text = smt2.replace("bv2int", "bv2nat")
        slv = cvc5.Solver()
        slv.setOption("tlimit-per", str(int(timeout_ms)))
        slv.setOption("fp-exp", "true")
        slv.setLogic("ALL")
        parser = cvc5.InputParser(slv)
        parser.setStringInput(cvc5.InputLanguage.SMT_LIB_2_6, text + "\n(check-sat)\n", "obligation")
        sm = parser.getSymbolManager()
        last = "unknown"
        while True:
            cmd = parser.nextCommand()
            if cmd.isNull():
                break
            out = str(cmd.invoke(slv, sm)).strip()
            if out in ("sat", "unsat", "unknown"):
                last = out
            elif out.startswith("(error"):
                return "error: " + out[:200]
        return last
    except Exception as e:
        return f"error: {type(e).__name__}: {str(e)[:200]}"

"""vcheck runner: schedules harness jobs (Engine S explorations, Engine T obligations), replays counterexamples
against the real code, applies the known-findings file, writes the evidence file and sets the exit status.

exit 0  property held on everything explored (INCONCLUSIVE jobs are reported in the evidence, never upgraded)
exit 1  at least one replayed counterexample not listed in known_findings.json  (VIOLATION line printed)
exit 3  harness error (counterexample that does not reproduce, vacuous harness, internal error)
"""
from __future__ import annotations

import concurrent.futures as cf
import hashlib
import importlib
import json
import os
import subprocess
import sys
import time
from typing import Any, Dict, List, Optional

ROOT = os.path.dirname(os.path.dirname(os.path.abspath(__file__)))
sys.path.insert(0, ROOT)
PY = os.path.join(ROOT, ".venv", "bin", "python")
if not os.path.exists(PY):  # running from a snapshot of /verif (vp run): the overlay venv lives in /verif
    PY = "/verif/.venv/bin/python"

PROPS: Dict[str, List[str]] = {
    "C01": ["c01_step"],
    "C02": ["c02_space"],
    "C04": ["c04_isolation"],
    "C05": ["c05_requests"],
    "C06": ["c06_blocking"],
    "C07": ["c07_acl"],
    "C08": ["c08_routing"],
    "C09": ["c09_obs"],
    "C10": ["c10_rewards"],
    "C11": ["c11_mask"],
    "C12": ["c12_power"],
    "C13": ["c13_software"],
    "C14": ["c14_health"],
    "C15": ["c15_fs"],
    "C16": ["c16_sessions"],
    "C17": ["c17_database"],
    "C18": ["c18_link"],
    "C19": ["c19_agents"],
    "C20": ["c20_config"],
}


def _run_worker(args: List[str], wall: float) -> Dict[str, Any]:
    env = dict(os.environ)
    pp = [ROOT]
    if env.get("VERIF_REPO_SRC"):  # development aid: analyse a scratch worktree's src instead of /repo/src
        pp.insert(0, env["VERIF_REPO_SRC"])
    env["PYTHONPATH"] = os.pathsep.join(pp + [env.get("PYTHONPATH", "")])
    env.setdefault("PYTHONHASHSEED", "0")
    t0 = time.time()
    try:
        p = subprocess.run(
            [PY, "-W", "ignore", "-m", "vlib.worker"] + args,
            cwd=ROOT,
            env=env,
            capture_output=True,
            text=True,
            timeout=wall,
        )
    except subprocess.TimeoutExpired:
        return {"status": "ERROR", "error": f"worker wall timeout {wall}s", "wall_s": time.time() - t0}
    for line in reversed(p.stdout.splitlines()):
        if line.startswith("RESULT "):
            r = json.loads(line[7:])
            r.setdefault("wall_s", time.time() - t0)
            return r
    return {
        "status": "ERROR",
        "error": "worker produced no RESULT (rc=%s)\n%s\n%s" % (p.returncode, p.stdout[-1500:], p.stderr[-3000:]),
        "wall_s": time.time() - t0,
    }


def load_known(prop: str) -> List[Dict[str, Any]]:
    path = os.path.join(ROOT, "known_findings.json")
    if not os.path.exists(path):
        return []
    data = json.load(open(path))
    return [f for f in data.get("findings", []) if f.get("property") == prop and f.get("status") == "open"]


def source_digest(paths: List[str]) -> Dict[str, str]:
    out = {}
    for p in paths:
        try:
            out[p] = hashlib.sha256(open(p, "rb").read()).hexdigest()[:16]
        except Exception:
            out[p] = "missing"
    return out


def main(argv: List[str]) -> int:
    prop = argv[0]
    tier = os.environ.get("VERIF_TIER", "quick")
    if "--tier" in argv:
        tier = argv[argv.index("--tier") + 1]
    only_h = None
    if "--harness" in argv:
        only_h = argv[argv.index("--harness") + 1]
    only_m = argv[argv.index("--match") + 1] if "--match" in argv else None  # developer filter on a job's fixed dict
    seed = int(os.environ.get("VERIF_SEED", "0") or 0)
    njobs = int(os.environ.get("VERIF_JOBS", str(os.cpu_count() or 4)))
    t_start = time.time()
    known = load_known(prop)

    jobs = []  # (label, modname, hname, payload, expect_known)
    meta: Dict[str, Any] = {}
    for modname in PROPS[prop]:
        mod = importlib.import_module("harness." + modname)
        for hname, spec in mod.HARNESSES.items():
            if only_h and hname != only_h:
                continue
            meta[(modname, hname)] = spec
            kn = [k for k in known if k.get("harness") == hname]
            excl = [k["predicate"] for k in kn]
            speclist = spec.get(tier) or spec.get("quick") or []
            for i, js in enumerate(speclist):
                if only_m and only_m not in json.dumps(js.get("fixed", {})):
                    continue
                payload = {
                    "fixed": js.get("fixed", {}),
                    "timeout": js.get("timeout", 120),
                    "per_path_timeout": js.get("per_path_timeout", 30),
                    "known_exclude": excl,
                }
                if spec.get("kind") == "smt":
                    payload["tier"] = tier
                jobs.append((f"{hname}[{i}]", modname, hname, payload, None))
            for k in kn:
                payload = {
                    "fixed": k.get("fixed", {}),
                    "timeout": k.get("timeout", 120),
                    "known_only": k["predicate"],
                    "known_exclude": [],
                }
                jobs.append((f"{hname}[known:{k['id']}]", modname, hname, payload, k))

    results = []
    with cf.ThreadPoolExecutor(max_workers=njobs) as ex:
        futs = {}
        for label, modname, hname, payload, k in jobs:
            mode = "smt" if meta[(modname, hname)].get("kind") == "smt" else "explore"
            wall = payload["timeout"] * 3 + 120  # CPU-time budget inside, generous wall outside (machine may be shared)
            futs[ex.submit(_run_worker, [mode, modname, hname, json.dumps(payload)], wall)] = (
                label,
                modname,
                hname,
                payload,
                k,
            )
        for f in cf.as_completed(futs):
            label, modname, hname, payload, k = futs[f]
            r = f.result()
            if r.get("status") == "REFUTED" and not r.get("replayed_by_worker") and meta[(modname, hname)].get("kind") != "smt":
                # replay at once; a counterexample that does not reproduce in a plain interpreter is an artefact of the
                # symbolic run (it has happened, rarely, with imports executed under the tracer): the job is run once more
                # and only the second run counts (a real, deterministic violation is found again and replays)
                kwargs = dict(r["cex"]["args"])
                kwargs.update(payload.get("fixed", {}))
                rp = _run_worker(["replay", modname, hname, json.dumps({"kwargs": kwargs})], 600)
                if rp.get("reproduced"):
                    r["replay"], r["replayed_by_worker"] = rp, True
                else:
                    first = {"args": r["cex"]["args"], "message": r["cex"].get("message"), "kind": r["cex"].get("kind")}
                    print(f"[{prop}] {label}: counterexample {first} did not reproduce concretely - job run again", flush=True)
                    r = _run_worker(["explore", modname, hname, json.dumps(payload)], payload["timeout"] * 3 + 120)
                    r["rerun_after_nonreproducing_counterexample"] = first
            if r.get("status") == "ERROR" and str(r.get("error", "")).startswith("NotDeterministic") and meta[(modname, hname)].get("kind") != "smt":
                # seen only on heavily loaded machines, always after a path had been abandoned (solver / path budget) in
                # the same job: the abandoned path leaves CrossHair's decision tree inconsistent. Run the job once more.
                print(f"[{prop}] {label}: NotDeterministic after {r.get('unknown_paths')} abandoned path(s) - job run again", flush=True)
                r = _run_worker(["explore", modname, hname, json.dumps(payload)], payload["timeout"] * 3 + 120)
                r["rerun_after_not_deterministic"] = True
            results.append((label, modname, hname, payload, k, r))
            print(
                f"[{prop}] {label} fixed={json.dumps(payload.get('fixed', {}))} -> {r.get('status')} "
                f"paths={r.get('paths')} confirmed={r.get('confirmed_paths')} unknown={r.get('unknown_paths')} "
                f"smt={r.get('smt_queries')} cpu={r.get('cpu_s')}s",
                flush=True,
            )

    violations = []
    harness_errors = []
    known_lines = []
    inconclusive = []
    replays_done = 0
    states = transitions = 0
    smt_time = 0.0
    samples: List[Any] = []
    cover_by_h: Dict[str, set] = {}
    per_job = []
    for label, modname, hname, payload, k, r in sorted(results, key=lambda x: x[0]):
        states += int(r.get("paths") or 0) + int(r.get("obligations") or 0)
        transitions += int(r.get("smt_queries") or 0)
        smt_time += float(r.get("smt_time_s") or 0)
        cover_by_h.setdefault(hname, set()).update(r.get("cover") or [])
        per_job.append(
            {
                "job": label,
                "fixed": payload.get("fixed", {}),
                "status": r.get("status"),
                "paths": r.get("paths"),
                "confirmed_paths": r.get("confirmed_paths"),
                "ignored_paths": r.get("ignored_paths"),
                "unknown_paths": r.get("unknown_paths"),
                "unknown_reasons": r.get("unknown_reasons"),
                "obligations": r.get("obligations"),
                "smt_queries": r.get("smt_queries"),
                "smt_time_s": r.get("smt_time_s"),
                "cpu_s": r.get("cpu_s"),
                "symbolic_params": r.get("symbolic_params"),
                "detail": r.get("detail"),
            }
        )
        for s in (r.get("samples") or [])[:2]:
            samples.append({"harness": hname, "fixed": payload.get("fixed", {}), "witness": s})
        st = r.get("status")
        if st == "ERROR":
            harness_errors.append(f"{label}: {r.get('error')}")
            continue
        if st == "REFUTED":
            cex = r["cex"]
            if r.get("replayed_by_worker"):
                rp = r["replay"]
            else:
                kwargs = dict(cex["args"])
                kwargs.update(payload.get("fixed", {}))
                rp = _run_worker(["replay", modname, hname, json.dumps({"kwargs": kwargs})], 600)
            replays_done += 1
            if not rp.get("reproduced"):
                harness_errors.append(
                    f"{label}: counterexample {cex['args']} ({cex.get('kind')}: {cex.get('message')}) did not "
                    f"reproduce concretely: {rp.get('outcome')} {rp.get('message', '')} {cex.get('trace', '')}"
                )
                continue
            rec = {
                "property": prop,
                "harness": f"{modname}:{hname}",
                "fixed": payload.get("fixed", {}),
                "args": cex["args"],
                "symbolic_message": cex.get("message"),
                "replay_message": rp.get("message"),
                "replay_cmd": f"bin/vcheck replay <this file>",
            }
            if k is not None:
                known_lines.append(f"KNOWN-FINDING: property={prop} {k['what']} [{k['id']}: {json.dumps(cex['args'])}]")
                continue
            digest = hashlib.sha1(json.dumps(rec, sort_keys=True).encode()).hexdigest()[:10]
            rdir = os.path.join(ROOT, "replays", prop)
            os.makedirs(rdir, exist_ok=True)
            rpath = os.path.join(rdir, f"{hname}-{digest}.json")
            json.dump(rec, open(rpath, "w"), indent=1)
            violations.append((rpath, rec))
        elif k is not None:
            # a listed finding whose region no longer fails (or could not be re-found): say so, nothing is suppressed
            print(f"[{prop}] note: known finding {k['id']} not re-found in its region (status {st})")
        elif st == "INCONCLUSIVE":
            inconclusive.append(label)

    # vacuity guard: declared cover labels must have been reached on a completed path
    for (modname, hname), spec in meta.items():
        want = set(spec.get("cover", []))
        got = cover_by_h.get(hname, set())
        ran = [x for x in results if x[2] == hname and x[4] is None]
        if not ran:
            continue
        if any(x[5].get("status") == "REFUTED" for x in ran):
            continue
        missing = want - got
        if missing:
            harness_errors.append(f"{hname}: vacuity guard: cover labels never reached: {sorted(missing)}")
        if spec.get("kind") != "smt":
            for x in ran:
                if x[5].get("status") in ("CONFIRMED", "INCONCLUSIVE") and not x[5].get("confirmed_paths"):
                    harness_errors.append(f"{x[0]}: vacuity guard: no path reached the end of the harness")

    # witness replay: samples are re-run concretely against the real code (symbolic and concrete runs must agree)
    wit_fail = 0
    by_h: Dict[Any, List[Dict[str, Any]]] = {}
    for label, modname, hname, payload, k, r in results:
        if meta[(modname, hname)].get("kind") == "smt":
            replays_done += int(r.get("validated") or 0)
            continue
        for s in (r.get("samples") or [])[:1]:
            if any(isinstance(v, str) and v.startswith("<") for v in s.values()):
                continue
            kw = dict(s)
            kw.update(payload.get("fixed", {}))
            by_h.setdefault((modname, hname), []).append(kw)
    for (modname, hname), kws in by_h.items():
        for kw in kws[:4]:
            rp = _run_worker(["replay", modname, hname, json.dumps({"kwargs": kw})], 600)
            replays_done += 1
            if rp.get("outcome") not in ("passed", "assumption_failed"):
                wit_fail += 1
                harness_errors.append(f"{hname}: witness {kw} passes symbolically but concretely: {rp}")

    for ln in known_lines:
        print(ln)
    for rpath, rec in violations:
        print(f"VIOLATION property={prop} replay={rpath}")
        print(f"  {rec['harness']} args={json.dumps(rec['args'])} fixed={json.dumps(rec['fixed'])}: {rec['replay_message']}")
    for e in harness_errors:
        print(f"HARNESS-ERROR property={prop} {e}")

    all_mods = [importlib.import_module("harness." + m) for m in PROPS[prop]]
    encoded = sorted({f for m in all_mods for f in getattr(m, "ENCODED", [])})
    assumptions = sorted({a for m in all_mods for a in getattr(m, "ASSUMPTIONS", [])})
    bounds = {}
    for (m, h) in meta:
        b = meta[(m, h)].get("bounds", "")
        bounds[h] = b.get(tier, b.get("quick")) if isinstance(b, dict) else b
    exhaustive = not inconclusive and not harness_errors and not violations
    ev = {
        "property_id": prop,
        "tier": tier if tier in ("quick", "thorough") else "quick",
        "seed": seed,
        "level": "model_checking",
        "coverage": {
            "states": max(states, 0),
            "transitions": max(transitions, 0),
            "traces_validated_against_impl": replays_done,
            "samples": samples[:12] or [{"note": "no completed path"}],
            "exhaustive": exhaustive,
            "explanation": (
                "states = execution paths of the real code explored symbolically (CrossHair) + SMT obligations "
                "(own translator); transitions = z3 satisfiability queries issued; a job with status CONFIRMED "
                "exhausted its path tree, i.e. the assertion holds for every value of the symbolic parameters within "
                "the stated bounds; INCONCLUSIVE jobs ran out of budget and are listed, not counted as success."
            ),
            "functions_encoded": encoded,
            "bounds": bounds,
            "jobs": per_job,
            "inconclusive_jobs": inconclusive,
            "solver_time_s": round(smt_time, 3),
            "known_findings_reported": known_lines,
            "harness_errors": harness_errors,
            "repo_sources": source_digest(sorted({p for m in all_mods for p in getattr(m, "SOURCES", [])})),
        },
        "assumptions": assumptions,
        "wall_s": round(time.time() - t_start, 2),
        "violations": len(violations),
    }
    os.makedirs(os.path.join(ROOT, "evidence"), exist_ok=True)
    json.dump(ev, open(os.path.join(ROOT, "evidence", f"{prop}.json"), "w"), indent=1)
    print(
        f"[{prop}] tier={tier} jobs={len(jobs)} states={states} smt_queries={transitions} replays={replays_done} "
        f"inconclusive={len(inconclusive)} violations={len(violations)} wall={ev['wall_s']}s"
    )
    if violations:
        return 1
    if harness_errors:
        return 3
    return 0


def replay_file(path: str) -> int:
    rec = json.load(open(path))
    modname, hname = rec["harness"].split(":")
    kwargs = dict(rec["args"])
    kwargs.update(rec.get("fixed", {}))
    rp = _run_worker(["replay", modname, hname, json.dumps({"kwargs": kwargs})], 600)
    print(json.dumps(rp, indent=1))
    if rp.get("reproduced"):
        print(f"VIOLATION property={rec['property']} replay={path}")
        return 1
    return 0


if __name__ == "__main__":
    if sys.argv[1] == "replay":
        sys.exit(replay_file(sys.argv[2]))
    sys.exit(main(sys.argv[1:]))

"""Worker process: run one harness job (explore symbolically, or replay concretely) and print a RESULT line."""
from __future__ import annotations

import importlib
import json
import os
import sys
import warnings

warnings.filterwarnings("ignore")
sys.path.insert(0, os.path.dirname(os.path.dirname(os.path.abspath(__file__))))


def load(modname: str, hname: str):
    mod = importlib.import_module("harness." + modname)
    spec = mod.HARNESSES[hname]
    return mod, spec


def _preimport():
    """Import the repository's modules once, untraced, before the exploration starts: harnesses import them lazily inside
    the traced function, and an import executed under CrossHair's tracer has (rarely) failed with a spurious TypeError."""
    import importlib
    import time

    # `import primaite` reads ~/primaite/<version>/primaite_config.yaml; if another process rewrites that file at the same
    # moment (a concurrent `primaite setup` / test run) the package fails to import with a TypeError: wait and retry
    for _ in range(10):
        try:
            importlib.import_module("primaite")
            break
        except Exception:
            for k in [k for k in sys.modules if k == "primaite" or k.startswith("primaite.")]:
                del sys.modules[k]
            time.sleep(0.5)
    for m in (
        "primaite.game.game", "primaite.game.science", "primaite.session.environment", "primaite.game.agent.rewards",
        "primaite.simulator.sim_container", "primaite.simulator.network.hardware.nodes.network.firewall",
        "primaite.simulator.network.hardware.nodes.network.wireless_router", "primaite.simulator.network.creation",
        "primaite.simulator.system.services.terminal.terminal", "primaite.simulator.system.services.database.database_service",
        "primaite.simulator.system.applications.database_client", "primaite.simulator.network.protocols.ssh",
        "primaite.simulator.system.applications.red_applications.ransomware_script",
        "primaite.simulator.system.applications.red_applications.dos_bot",
    ):
        try:
            importlib.import_module(m)
        except Exception:
            pass


def main(argv):
    mode, modname, hname, payload = argv[0], argv[1], argv[2], json.loads(argv[3])
    from vlib import chdriver

    mod, spec = load(modname, hname)
    fn = spec["fn"]
    if mode == "explore":
        extra = None
        known = payload.get("known_exclude") or []
        only = payload.get("known_only")
        if known or only:
            preds = [compile(k, "<known>", "eval") for k in known]
            only_c = compile(only, "<known>", "eval") if only else None

            def extra(kw, preds=preds, only_c=only_c):
                for p in preds:
                    if eval(p, {}, dict(kw)):
                        return False
                if only_c is not None and not eval(only_c, {}, dict(kw)):
                    return False
                return True

        _preimport()
        res = chdriver.explore(
            fn,
            payload.get("fixed", {}),
            timeout=float(payload.get("timeout", 120)),
            per_path_timeout=float(payload.get("per_path_timeout", 30)),
            extra_assume=extra,
        )
    elif mode == "smt":
        import time, traceback

        t0 = time.time()
        c0 = time.process_time()
        try:
            res = fn(**payload.get("fixed", {}))
        except Exception as e:
            res = {"status": "ERROR", "error": type(e).__name__ + ": " + str(e) + "\n" + traceback.format_exc()[-3000:]}
        res.setdefault("wall_s", round(time.time() - t0, 3))
        res.setdefault("cpu_s", round(time.process_time() - c0, 3))
    elif mode == "replay":
        res = chdriver.replay(spec.get("replay_fn", fn), payload["kwargs"])
    else:
        raise SystemExit("bad mode")
    sys.stdout.write("\nRESULT " + json.dumps(res) + "\n")
    sys.stdout.flush()


if __name__ == "__main__":
    main(sys.argv[1:])
